"""C13 — partitioning an aggregate model yields sound per-delegation models.

Snapshot comparison of each graph returned by generate_adms with the input model; the expected
per-delegation content is computed from the generator's own delegation dictionaries (plain JSON),
never through the library's Delegations code.
"""
import json

from vlib import canon, rawgraph, subgen, topogen

PROPERTY = 'C13'
LEVEL = 'exploration'
SHARDS = {'quick': 4, 'thorough': 16}
TIME_BUDGET = {'quick': 60, 'thorough': 1300}
RULE = ('generated substrate models (1-3 workers with GPU/NVME/SharedNIC/SmartNIC components, a stitch-marked data-plane switch with '
        'service and ports, patch links, optional facility port, stitch-marked uplinks; and network models sharing the stitch nodes of '
        '2-3 sites) annotated with 1-3 delegation ids: single-resource and pooled, nodes with only label, only capacity, both or no '
        'delegations, several ids on one node; in-memory shared store; ARM obtained via as_arm() and via serialize->import. One '
        'evaluation = one (model, delegation id) partition; distinct by (model hash, delegation id); non-trivial when the partition '
        'keeps some nodes and drops others')
REQUIRED = ['models', 'partitions', 'partitions:proper-subset', 'clause:delegated-present', 'clause:own-entries-only',
            'clause:no-foreign-entry', 'clause:sub-model', 'clause:interface-neighbourhood', 'clause:stitch-present',
            'clause:original-untouched', 'clause:rewrite-only-key', 'node:only-label', 'node:only-capacity', 'node:both',
            'node:several-ids', 'node:pooled', 'arm:as_arm', 'arm:serialize-import', 'kind:site', 'kind:network']
ASSUMPTIONS = ['the in-memory shared store only (the statement\'s scope)',
               'a delegation property that is absent, \'\' or \'None\' counts as "no delegation" (the library\'s own convention)',
               'interface neighbourhood clause is evaluated for every ConnectionPoint kept in a partition: its Link(s), the peer '
               'ConnectionPoint(s), its NetworkService and that service\'s owner (NetworkNode or Component) must be kept']

DELPROPS = (subgen.CAPD, subgen.LABD)


def parse(v):
    if v in (None, '', 'None'):
        return {}
    return json.loads(v)


def strip_del(props):
    return {k: v for k, v in props.items() if k not in DELPROPS}


def check_partition(ctx, w, orig, part, d, site, model_gid):
    """orig/part: canonical graphs; d: delegation id; site: generator record."""
    tm = topogen.TM(orig)
    key = lambda k, c: ctx.violation(f'C13/{k}', c[0], dict(w, delegation=d, **c[1]))
    ok = True
    # (1) every resource delegated to d is present and carries exactly its own d entries
    ctx.count('clause:delegated-present')
    ctx.count('clause:own-entries-only')
    for nid, ent in site.delegations.items():
        mine = {p: {d: e[d]} for p, e in ent.items() if d in e}
        if not mine:
            continue
        if nid not in part['nodes']:
            key('delegated-resource-missing', ('every resource delegated to the id is present in its partition', {'node': nid}))
            ok = False
            continue
        for p in DELPROPS:
            got = parse(part['nodes'][nid].get(p))
            exp = mine.get(p, {})
            if got != exp:
                key('delegation-entries-differ', ('a delegated resource carries exactly its own delegation entries',
                                                  {'node': nid, 'prop': p, 'expected': exp, 'got': got}))
                ok = False
    # (2) no entry of another delegation anywhere
    ctx.count('clause:no-foreign-entry')
    for nid, props in part['nodes'].items():
        for p in DELPROPS:
            foreign = [k for k in parse(props.get(p)) if k != d]
            if foreign:
                key('foreign-delegation-entry', ('no entry belonging to another delegation appears in a partition',
                                                 {'node': nid, 'prop': p, 'foreign': foreign}))
                ok = False
    # (3) sub-model
    ctx.count('clause:sub-model')
    extra = sorted(set(part['nodes']) - set(orig['nodes']))
    if extra or part.get('dup_node_ids'):
        key('node-not-in-original', ('a partition is a sub-model of the original (same ids)', {'extra': extra}))
        ok = False
    for nid, props in part['nodes'].items():
        if nid in orig['nodes'] and strip_del(props) != strip_del(orig['nodes'][nid]):
            key('node-properties-differ', ('kept elements keep their other properties',
                                           {'node': nid, 'diff': canon.diff({'nodes': {nid: strip_del(orig['nodes'][nid])}, 'edges': {}},
                                                                            {'nodes': {nid: strip_del(props)}, 'edges': {}})}))
            ok = False
    kept = set(part['nodes'])
    for ek, ep in orig['edges'].items():
        a, b = json.loads(ek)
        if a in kept and b in kept:
            if part['edges'].get(ek) != ep:
                key('connection-between-kept-elements-lost', ('every original connection between two kept elements is kept',
                                                              {'edge': ek, 'got': part['edges'].get(ek)}))
                ok = False
    for ek in part['edges']:
        if ek not in orig['edges']:
            key('connection-not-in-original', ('a partition has no connection the original lacks', {'edge': ek}))
            ok = False
    # (4) interface neighbourhood
    ctx.count('clause:interface-neighbourhood')
    for cp in kept:
        if tm.cls(cp) != 'ConnectionPoint':
            continue
        need = set()
        for l in tm.links_of(cp):
            need.add(l)
            need |= set(tm.link_ends(l))
        ns = tm.nb(cp, 'connects', 'NetworkService')
        for s in ns:
            need.add(s)
            owner = [j for j in tm.nb(s, 'has') if tm.cls(j) in ('NetworkNode', 'Component')]
            need |= set(owner)
        miss = sorted(need - kept)
        if miss:
            key('interface-neighbourhood-incomplete', ('each kept interface keeps its link, its peer, its owning service and that '
                                                       'service\'s owner', {'interface': cp, 'missing': [(m, tm.cls(m)) for m in miss]}))
            ok = False
            break
    # (5) stitch nodes
    ctx.count('clause:stitch-present')
    st = [n for n, p in orig['nodes'].items() if p.get('StitchNode') == 'true']
    miss = sorted(set(st) - kept)
    if miss:
        key('stitch-element-missing', ('all stitching elements are present in every partition', {'missing': miss}))
        ok = False
    return ok


def one_model(ctx, imp, tag):
    rng = ctx.subrng('model', tag)
    topogen.seed_uuid(f'{ctx.seed}/{ctx.shard}/m{tag}')
    imp.delete_all_graphs()
    ndel = rng.randrange(1, 4)
    del_ids = ['del-primary', 'del-secondary', 'del-x'][:ndel]
    kind = 'site' if tag % 3 != 2 else 'network'
    if kind == 'site':
        site = subgen.gen_site(rng, rng.choice(['RENC', 'UKY', 'LBNL']), del_ids)
    else:
        sites = [subgen.gen_site(rng, n, del_ids, nworkers=1) for n in rng.sample(['RENC', 'UKY', 'LBNL'], rng.randrange(2, 4))]
        site = subgen.gen_network(rng, sites, del_ids)
        if not site.delegations:
            site.delegations[sites[0].uplinks[0][1]] = {subgen.LABD: {del_ids[0]: {'pool_id': '_', 'labels': {'vlan_range': '1-2'}}}}
    ctx.count('kind:' + kind)
    topo = subgen.build(imp, site)
    via = 'as_arm' if tag % 2 == 0 else 'serialize-import'
    ctx.count('arm:' + via)
    arm = subgen.arm_of(topo, 'as_arm' if via == 'as_arm' else 'import')
    for nid, ent in site.delegations.items():
        ids = set()
        for e in ent.values():
            ids |= set(e)
        ctx.count('node:both' if len(ent) == 2 else ('node:only-label' if subgen.LABD in ent else 'node:only-capacity'))
        if len(ids) > 1:
            ctx.count('node:several-ids')
        if any('pool' in x or x.get('pool_id', '_') != '_' for e in ent.values() for x in e.values()):
            ctx.count('node:pooled')
    ctx.count('models')
    gid = arm.graph_id
    before_all = canon.store_snapshot(imp)[0]
    orig = before_all[gid]
    mh = __import__('vlib.core', fromlist=['digest']).digest(orig)
    w = {'kind': kind, 'via': via, 'script': site.script, 'delegations': site.delegations}
    # graph ids for the partitions: none supplied, all supplied, or only some (the others are then chosen by the library)
    gm = rng.random()
    guids = {d: f'adm-{d}-{tag}' for d in del_ids} if gm < 0.6 else None
    if guids and gm < 0.3:
        for d in rng.sample(sorted(guids, key=repr), rng.randrange(0, len(guids) + 1)):
            del guids[d]
        ctx.count('guids:partial' if guids else 'guids:empty-mapping')
    try:
        adms = arm.generate_adms(delegation_guids=guids)
    except Exception as e:
        ctx.violation('C13/generate-adms-raises', f'partitioning raised {type(e).__name__}: {str(e)[:200]}', w)
        return
    after_all = canon.store_snapshot(imp)[0]
    # (6) the original model (and every other graph that existed) untouched
    ctx.count('clause:original-untouched')
    for g0, c0 in before_all.items():
        if after_all.get(g0) != c0:
            ctx.violation('C13/original-model-changed', 'the original model is left untouched',
                          dict(w, graph=g0, diff=canon.diff(c0, after_all.get(g0))))
    used = set()
    for ent in site.delegations.values():
        for e in ent.values():
            used |= set(e)
    if set(adms) != used:
        ctx.violation('C13/partition-set-differs', 'one model per delegation id in use', dict(w, got=sorted(adms), expected=sorted(used)))
    gids = [adm.graph_id for adm in adms.values()]
    if len(set(gids)) != len(gids) or gid in gids:
        ctx.violation('C13/partitions-share-a-graph', 'one model per delegation id: every partition is a graph of its own',
                      dict(w, supplied=guids, graph_ids={repr(d): a.graph_id for d, a in adms.items()}))
        return
    for d, adm in sorted(adms.items()):
        part = after_all.get(adm.graph_id)
        ctx.count('partitions')
        if guids and d in guids and adm.graph_id != guids[d]:
            ctx.violation('C13/partition-graph-id', 'a partition uses the graph id supplied for its delegation', dict(w, delegation=d))
        if part is None:
            ctx.violation('C13/partition-empty', 'a partition exists in the store', dict(w, delegation=d))
            continue
        proper = 0 < len(part['nodes']) < len(orig['nodes'])
        if proper:
            ctx.count('partitions:proper-subset')
        ctx.seen([mh, d], proper)
        check_partition(ctx, w, orig, part, d, site, gid)
        # (7) re-keying
        ctx.count('clause:rewrite-only-key')
        from fim.graph.resources.networkx_adm import NetworkXADMGraph
        a2 = NetworkXADMGraph(graph_id=adm.graph_id, importer=imp)
        real = rng.choice([None, 'real-' + adm.graph_id])
        try:
            a2.rewrite_delegations(real_adm_id=real)
        except Exception as e:
            ctx.violation('C13/rewrite-delegations-raises', f'{type(e).__name__}: {str(e)[:200]}', dict(w, delegation=d))
            continue
        rk = canon.graph_snapshot(imp, adm.graph_id)
        newkey = real or adm.graph_id
        for nid, props in part['nodes'].items():
            for p in DELPROPS:
                e0 = parse(props.get(p))
                e1 = parse(rk['nodes'][nid].get(p))
                exp = {newkey: e0[d]} if d in e0 else {}
                if e1 != exp:
                    ctx.violation('C13/rewrite-changes-more-than-key', 're-keying a partition\'s delegations changes only the key',
                                  dict(w, delegation=d, node=nid, prop=p, before=e0, after=e1))
            if strip_del(rk['nodes'][nid]) != strip_del(props):
                ctx.violation('C13/rewrite-changes-other-properties', 're-keying leaves other properties alone', dict(w, node=nid))
        if rk['edges'] != part['edges']:
            ctx.violation('C13/rewrite-changes-edges', 're-keying leaves connections alone', dict(w, delegation=d))
        # re-keying to the key the delegations already carry (what the combined-model merge does with a clone of a model
        # that was re-keyed before) is the identity
        ctx.count('clause:rewrite-to-same-key')
        try:
            a2.rewrite_delegations(real_adm_id=newkey)
            rk2 = canon.graph_snapshot(imp, adm.graph_id)
            if not canon.typed_equal(rk2, rk):
                ctx.violation('C13/rewrite-to-same-key-changes-model', 're-keying a partition\'s delegations changes only the key '
                              '(nothing, when the key is already the requested one)', dict(w, delegation=d, diff=canon.diff(rk, rk2)))
        except Exception as e:
            ctx.violation('C13/rewrite-delegations-raises', f'{type(e).__name__}: {str(e)[:200]}', dict(w, delegation=d, second=True))
    # a second aggregate model (another site, the same delegation ids - the normal case) partitioned in the same store:
    # the partitions of the first model are models of their own and stay what they were
    if tag % 3 == 0 and adms:
        ctx.count('clause:partitions-survive-another-model')
        held = {d: (adm.graph_id, canon.graph_snapshot(imp, adm.graph_id)) for d, adm in adms.items()}
        try:
            site2 = subgen.gen_site(rng, 'STAR', del_ids, nworkers=1)
            arm2 = subgen.arm_of(subgen.build(imp, site2), 'as_arm')
            arm2.generate_adms()
        except Exception as e:
            ctx.violation('C13/generate-adms-raises', f'partitioning a second model raised {type(e).__name__}: {str(e)[:200]}', w)
            return
        for d, (g0, snap0) in held.items():
            now = canon.graph_snapshot(imp, g0)
            if now != snap0:
                ctx.violation('C13/partition-changed-by-partitioning-another-model', 'each partition is a sub-model of the model it was split '
                              'from (and stays one when another aggregate model using the same delegation ids is split)',
                              dict(w, delegation=d, diff=canon.diff(snap0, now)))
                return
    # the same ARM object splits the model again after the model has grown (a worker with a delegation of its own was added):
    # the new partitions are partitions of the model as it is now
    if tag % 3 == 1 and adms:
        ctx.count('clause:split-again-after-the-model-grew')
        for adm in adms.values():
            imp.delete_graph(graph_id=adm.graph_id)
        d_new = rng.choice(sorted(used))
        nid = f'late-worker-{tag}-id'
        entry = {'pool_id': '_', 'capacities': {'unit': 1, 'core': 4}}
        w2 = dict(w, grown_by=nid, delegated_to=d_new)
        try:
            arm.add_node(node_id=nid, label='NetworkNode',
                         props={'Name': f'late-worker-{tag}', 'Type': 'Server', 'Site': 'RENC',
                                subgen.CAPD: json.dumps({d_new: entry})})
            site.delegations[nid] = {subgen.CAPD: {d_new: entry}}
            orig2 = canon.graph_snapshot(imp, gid)
            adms2 = arm.generate_adms(delegation_guids={d: f'adm2-{d}-{tag}' for d in used})
        except Exception as e:
            ctx.violation('C13/generate-adms-raises', f'partitioning the grown model through the same ARM object raised {type(e).__name__}: '
                          f'{str(e)[:200]}', w2)
            return
        after2 = canon.store_snapshot(imp)[0]
        if set(adms2) != used:
            ctx.violation('C13/partition-set-differs', 'one model per delegation id in use', dict(w2, got=sorted(adms2), expected=sorted(used)))
            return
        for d, adm in sorted(adms2.items()):
            part = after2.get(adm.graph_id)
            ctx.count('partitions:of-the-grown-model')
            if part is None:
                ctx.violation('C13/partition-empty', 'a partition exists in the store', dict(w2, delegation=d))
                continue
            check_partition(ctx, w2, orig2, part, d, site, gid)
    if tag == 0:
        ctx.sample({'kind': kind, 'script': site.script[:5], 'delegations': dict(list(site.delegations.items())[:3])})


def run(ctx):
    imps = rawgraph.importers()
    imp = imps['shared'][0]
    n = ctx.pick(100, 1500)
    for i in range(n):
        one_model(ctx, imp, i)
        if ctx.out_of_time():
            break
    imp.delete_all_graphs()


def replay(ctx, case):
    ctx.mark_inconclusive('replay: re-run the tier with the recorded seed/shard (models are generated from the seed); '
                          'the witness contains the full build script and delegation dictionaries')


LEVEL_TEXT = ('Runtime monitoring by snapshot comparison: every graph generate_adms returns is canonicalised and compared with the input '
              'model and with the per-delegation content the generator wrote (plain JSON): delegated resources present with exactly '
              'their own entries, no foreign entry anywhere, sub-model (ids, other properties, all connections between kept '
              'elements), interface neighbourhood, stitch elements, original untouched, re-keying changes only the key. Held on the '
              'models observed.')
LEVEL_NOTE = ('Trusted: the substrate generator and its delegation bookkeeping, canonical snapshots. Not covered: the Neo4j ARM, '
              'pools spanning several delegation ids.')
TECHNIQUE = 'snapshot comparison of each partition with the input model and the generator\'s delegation record'
