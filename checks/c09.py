"""C09 — a topology operation that fails leaves the model unchanged.

Snapshot hook around every call: whenever a building call raises, the canonical snapshot of the
WHOLE store (all graphs) must equal the snapshot taken before the call.  Workload: the random
building histories of C07 (20 % deliberately invalid arguments) plus a dedicated failing-call
generator that puts the rejected argument at every position of composite calls.
"""
from vlib import canon, rawgraph, topogen

PROPERTY = 'C09'
LEVEL = 'fault_enumeration'
SHARDS = {'quick': 4, 'thorough': 16}
TIME_BUDGET = {'quick': 60, 'thorough': 1300}
RULE = ('(a) every raising call of random building histories on both topology flavours; (b) on reachable topologies, failing calls '
        'built on purpose: duplicate name / duplicate caller-supplied id (colliding with an element of any class), invalid name, '
        'invalid label/capacity value and unknown keyword at position 1..k among valid ones, unknown component model, the j-th of m '
        'interfaces of a service already connected / refused by the guard-rail / stale, facility with m interface tuples whose j-th '
        'is bad, caller-supplied interface ids colliding at the j-th port of a component, sub-interface with missing/duplicate '
        'VLAN, link whose j-th end is stale, peer with a colliding port name. One evaluation = one raising call; distinct by (op '
        'descriptor, model hash); non-trivial when the model was non-empty')
REQUIRED = ['target:derived-id-collision', 'raising-calls', 'raising-calls:history', 'raising-calls:targeted', 'snapshots-compared', 'target:dup-name',
            'target:dup-id', 'target:bad-kw-position', 'target:bad-interface-position', 'target:facility-bad-tuple-position',
            'target:unknown-model', 'target:subinterface-vlan', 'target:link-stale-end', 'target:component-if-id-collision', 'target:stale-service', 'retry:raised-again', 'target:node-with-services-position', 'target:component-with-services-position', 'target:derived-name-collision', 'target:link-end-not-a-handle', 'target-accepted:label-less-peer:copy_to_peer_labels']
ASSUMPTIONS = ['only argument rejections are injected (the statement is about rejected arguments); exceptions raised at arbitrary '
               'internal lines would demand a transaction mechanism the library does not promise',
               'the handle object the call was made on may be left changed (e.g. rename sets handle.name before validating); only '
               'the model is compared']

COMPOSITE = {'add_facility', 'add_switch', 'add_network_service', 'add_port_mirror_service', 'add_component', 'add_link', 'peer',
             'add_storage', 'add_node', 'add_node_service', 'service_add_interface', 'add_child_interface', 'connect_interface'}


def classify(op, exc, diff, flavour):
    o = op['op']
    if o == 'add_facility' and op.get('node_id') and op.get('interfaces') and len(op['interfaces']) >= 2 and \
            'a node with this ID exists' in str(exc):
        return 'C09/add_facility-interface-index-reset-duplicate-id'
    et = type(exc).__name__
    if o in ('add_network_service', 'add_port_mirror_service') and et != 'TopologyException':
        return f'C09/{o}-rollback-only-on-TopologyException'
    return f'C09/{o}-not-atomic'


VOC = [None]


def whole(imp):
    return canon.store_snapshot(imp)[0]


def attempt(ctx, imp, topo, op, origin, flavour, store, hist=None):
    """Execute one call; if it raises, the store must be unchanged."""
    before = whole(imp)
    try:
        topogen.execute(topo, op)
        return 'ok'
    except topogen.Unresolved:
        return 'unresolved'
    except Exception as e:
        after = whole(imp)
        ctx.count('raising-calls')
        ctx.count('raising-calls:' + origin)
        ctx.count('snapshots-compared')
        ctx.count('raise:' + op['op'])
        gid = topo.graph_model.graph_id
        ctx.seen([op, len(before.get(gid, {'nodes': {}})['nodes']), origin], bool(before))
        if before != after:
            # a model that already breaks the naming rule (reachable only through the known finding
            # C07/rename-to-existing-name) makes look-ups by name ambiguous; what a call does then is not judged
            from vlib import toporules
            dup = [x for x in toporules.check_rules(topogen.TM(before.get(gid)), VOC[0]) if x[0].startswith('duplicate-name')] if before.get(gid) else []
            if not dup and before.get(gid):
                # topology.network_services is keyed by name over ALL services (node-owned ones included): a top-level service
                # renamed to the name of a component's own service makes every look-up by that name ambiguous as well
                tmb = topogen.TM(before.get(gid))
                names = [tmb.name(x) for x in tmb.ids('NetworkService')]
                dup = sorted({x for x in names if names.count(x) > 1})
            if dup:
                ctx.count('not-judged:model-already-has-duplicate-names')
                return 'raise'
            d = []
            for g in sorted(set(before) | set(after)):
                d += [f'[{g[:8]}] {x}' for x in canon.diff(before.get(g), after.get(g))]
            leaked = sorted({after[gid]['nodes'][n].get('Class') for n in set(after.get(gid, {'nodes': {}})['nodes']) -
                             set(before.get(gid, {'nodes': {}})['nodes'])}) if gid in after else []
            ctx.violation(classify(op, e, d, flavour), 'a call that raises leaves the model observably unchanged',
                          {'flavour': flavour, 'store': store, 'op': op, 'exception': f'{type(e).__name__}: {str(e)[:200]}',
                           'diff': d[:8], 'leaked_classes': leaked, 'history': hist})
            return 'violation'
        # a caller retrying the rejected call: refused or not, a raising second attempt leaves the model unchanged as well
        try:
            topogen.execute(topo, op)
            ctx.count('retry:accepted-second-time')
            return 'ok'
        except topogen.Unresolved:
            return 'raise'
        except Exception as e2:
            ctx.count('retry:raised-again')
            after2 = whole(imp)
            if after2 != before:
                d = []
                for g in sorted(set(before) | set(after2)):
                    d += [f'[{g[:8]}] {x}' for x in canon.diff(before.get(g), after2.get(g))]
                ctx.violation(classify(op, e2, d, flavour) + ':on-retry', 'a call that raises leaves the model observably unchanged '
                              '(the same rejected call made a second time)',
                              {'flavour': flavour, 'store': store, 'op': op, 'exception': f'{type(e2).__name__}: {str(e2)[:200]}',
                               'diff': d[:8], 'history': hist})
                return 'violation'
        return 'raise'


# ---------------------------------------------------------------------------------- targeted failing calls
def targeted_ops(rng, topo, flavour):
    """Failing calls for the current state, bad argument at every position."""
    tm = topogen.tm_of(topo)
    g = topogen.Gen(rng, topo, flavour, p_valid=1.0)
    g.k = 10000 + rng.randrange(1000)
    sub = flavour == 'substrate'
    out = []
    nodes = tm.ids('NetworkNode')
    if not nodes:
        return out
    nnames = [tm.name(n) for n in nodes]
    any_ids = sorted(tm.n)
    plain = [n for n in nodes if tm.typ(n) in ('VM', 'Server', 'Container')]
    site = 'RENC'
    good_kw = [('capacities', {'core': 2, 'ram': 8, 'disk': 10}), ('image_type', 'qcow2'), ('image_ref', 'default_centos_8'),
               ('tags', ['a']), ('flags', {'auto_config': True}), ('details', 'd')]
    bad_kw = [('labels', {'vlan': '5000'}), ('nosuchprop', 1), ('labels', {'mac': 'zz'}), ('boot_script', 'x' * 2000),
              ('capacities', {'nosuch': 1}), ('tags', ['bad tag!'])]

    def kw_at(pos, k):
        items = list(good_kw[:k])
        items.insert(pos, rng.choice(bad_kw))
        return dict(items)

    def nid(p):
        return g.fresh(p + '-id') if (sub or rng.random() < 0.5) else None
    # --- add_node
    out.append(('dup-name', {'op': 'add_node', 'name': rng.choice(nnames), 'node_id': nid('n'), 'site': site, 'ntype': 'VM'}))
    out.append(('dup-id', {'op': 'add_node', 'name': g.fresh('n'), 'node_id': rng.choice(any_ids), 'site': site, 'ntype': 'VM'}))
    out.append(('bad-name', {'op': 'add_node', 'name': rng.choice(['x', 'bad name', 'a/b', '']), 'node_id': nid('n'), 'site': site, 'ntype': 'VM'}))
    k = rng.randrange(1, 5)
    for pos in range(k + 1):
        out.append(('bad-kw-position', {'op': 'add_node', 'name': g.fresh('n'), 'node_id': nid('n'), 'site': site,
                                        'ntype': rng.choice(['VM', 'Server', 'Switch']), 'kw': kw_at(pos, k)}))
    # --- add_node with the services it is created with (ns_info): the j-th service is refused (its id is in use)
    for j in range(3):
        svcs = [[g.fresh('ns'), 'OVS', g.fresh('ns-id')] for _ in range(3)]
        svcs[j][2] = rng.choice(any_ids) if j or rng.random() < 0.5 else svcs[(j + 1) % 3][2]
        out.append(('node-with-services-position', {'op': 'add_node', 'name': g.fresh('n'), 'node_id': nid('n') or g.fresh('n-id'), 'site': site,
                                                    'ntype': 'VM', 'ns_info': svcs}))
    # --- add_switch with extra keyword arguments (documented as passed on to the node)
    for pos in range(2):
        out.append(('bad-kw-position', {'op': 'add_switch', 'name': g.fresh('sw'), 'node_id': nid('sw') or g.fresh('sw-id'), 'site': site, 'nports': 2,
                                        'kw': kw_at(pos, 1)}))
    # --- components
    if plain:
        n = rng.choice(plain)
        cn = [tm.name(c) for c in tm.components(n)]
        base = {'op': 'add_component', 'node': tm.name(n)}
        nic = {}
        if sub:
            b = g.fresh('nic')
            nic = {'ns_node_id': b + '-sf', 'if_node_ids': [b + '-p1', b + '-p2'],
                   'if_labels': [{'mac': '04:3F:72:B7:15:01'}, {'mac': '04:3F:72:B7:15:02'}]}
        if cn:
            out.append(('dup-name', dict(base, name=rng.choice(cn), node_id=nid('c'), model_type='GPU_A30')))
        out.append(('dup-id', dict(base, name=g.fresh('c'), node_id=rng.choice(any_ids), model_type='SmartNIC_ConnectX_6', **nic)))
        out.append(('unknown-model', dict(base, name=g.fresh('c'), node_id=nid('c'), ctype='GPU', model='NoSuchModel')))
        # a component created together with services of its own: the j-th of them is refused (its id is in use)
        for j in range(3):
            svcs = [[g.fresh('cs'), 'OVS', g.fresh('cs-id')] for _ in range(3)]
            svcs[j][2] = rng.choice(any_ids) if j or rng.random() < 0.5 else svcs[(j + 1) % 3][2]
            out.append(('component-with-services-position', dict(base, name=g.fresh('c'), node_id=nid('c') or g.fresh('c-id'),
                                                                 model_type='GPU_A30', ns_info=svcs)))
        out.append(('unknown-model', dict(base, name=g.fresh('c'), node_id=nid('c'), ctype='SmartNIC', model='RTX6000')))
        for pos in range(3):
            out.append(('bad-kw-position', dict(base, name=g.fresh('c'), node_id=nid('c'), model_type='SmartNIC_ConnectX_5',
                                                kw=kw_at(pos, 2), **(dict(nic, ns_node_id=g.fresh('sf'), if_node_ids=[g.fresh('p'), g.fresh('p')]) if sub else {}))))
        # caller-supplied ids of the network service / j-th interface collide with an existing element
        b = g.fresh('nic')
        for j in range(3):
            ids = [b + '-sf', b + '-p1', b + '-p2']
            ids[j] = rng.choice(any_ids)
            out.append(('component-if-id-collision', dict(base, name=g.fresh('c'), node_id=g.fresh('c-id'),
                                                          model_type='SmartNIC_ConnectX_6', ns_node_id=ids[0], if_node_ids=ids[1:],
                                                          if_labels=[{'mac': '04:3F:72:B7:15:01'}, {'mac': '04:3F:72:B7:15:02'}])))
        if not sub:
            out.append(('dup-name', {'op': 'add_storage', 'node': tm.name(n), 'name': rng.choice(cn) if cn else 'x',
                                     'node_id': None, 'kw': {'labels': {'local_name': 'v'}}}))
    # --- facility: m interface tuples, j-th bad (duplicate name / invalid name); caller-supplied id with m>=2
    m = rng.randrange(2, 5)
    for j in range(m):
        ifs = [[g.fresh('fi'), {'vlan_range': '100-200'}, {'bw': 10}] for _ in range(m)]
        ifs[j][0] = ifs[0][0] if j > 0 else 'bad/name!'
        out.append(('facility-bad-tuple-position', {'op': 'add_facility', 'name': g.fresh('fac'), 'node_id': None if not sub else g.fresh('fac-id'),
                                                    'site': site, 'interfaces': ifs}))
    out.append(('facility-bad-tuple-position', {'op': 'add_facility', 'name': g.fresh('fac'), 'node_id': g.fresh('fac-id'), 'site': site,
                                                'interfaces': [[g.fresh('fi'), {'vlan_range': '1-2'}, {'bw': 1}] for _ in range(rng.randrange(2, 4))]}))
    out.append(('dup-name', {'op': 'add_facility', 'name': rng.choice(nnames), 'node_id': nid('fac'), 'site': site}))
    out.append(('bad-kw-position', {'op': 'add_facility', 'name': g.fresh('fac'), 'node_id': nid('fac'), 'site': site,
                                    'kw': {'labels': {'vlan_range': '1-2'}, 'nosuchprop': 3}}))
    # composite constructors whose *derived* ids collide after the node itself was created
    helper = g.fresh('colh')
    out.append(('setup', {'op': 'add_node', 'name': helper, 'node_id': helper + '-id', 'site': site, 'ntype': 'Switch'}))
    c1, c2, c3 = g.fresh('col'), g.fresh('col'), g.fresh('col')
    out.append(('setup', {'op': 'add_node_service', 'node': helper, 'name': g.fresh('ns'), 'node_id': c1 + '-ns', 'nstype': 'MPLS'}))
    hs = g.fresh('ns')
    out.append(('setup', {'op': 'add_node_service', 'node': helper, 'name': hs, 'node_id': hs + '-id', 'nstype': 'MPLS'}))
    out.append(('setup', {'op': 'service_add_interface', 'service': hs, 'name': g.fresh('p'), 'node_id': c2 + '-int2', 'itype': 'TrunkPort'}))
    out.append(('setup', {'op': 'service_add_interface', 'service': hs, 'name': g.fresh('p'), 'node_id': c3 + '-int1', 'itype': 'TrunkPort'}))
    out.append(('derived-id-collision', {'op': 'add_switch', 'name': g.fresh('sw'), 'node_id': c1, 'site': site, 'nports': 2}))
    out.append(('derived-id-collision', {'op': 'add_switch', 'name': g.fresh('sw'), 'node_id': c2, 'site': site, 'nports': 3}))
    out.append(('derived-id-collision', {'op': 'add_facility', 'name': g.fresh('fac'), 'node_id': c1, 'site': site}))
    out.append(('derived-id-collision', {'op': 'add_facility', 'name': g.fresh('fac'), 'node_id': c3, 'site': site,
                                         'interfaces': [[g.fresh('fi'), {'vlan_range': '1-2'}, {'bw': 1}] for _ in range(3)]}))
    out.append(('dup-name', {'op': 'add_switch', 'name': rng.choice(nnames), 'node_id': nid('sw'), 'site': site, 'nports': 2}))
    out.append(('dup-id', {'op': 'add_switch', 'name': g.fresh('sw'), 'node_id': rng.choice(any_ids)[:-1] if False else rng.choice(any_ids), 'site': site, 'nports': 2}))
    # --- services (experiment flavour): j-th of m interfaces is bad
    refs = g.iface_refs(tm)
    free = [x for x in refs if not tm.peers(x[1])]
    conn = [x for x in refs if tm.peers(x[1])]
    shared = [x for x in free if tm.typ(x[1]) == 'SharedPort']
    snames = [tm.name(s) for s in tm.ids('NetworkService')]
    if not sub:
        for mm in (1, 2, 3, 4):
            if len(free) < mm - 1:
                break
            for j in range(mm):
                good = [x[0] for x in rng.sample(free, mm - 1)] if mm > 1 else []
                bads = []
                if conn:
                    bads.append(('connected', rng.choice(conn)[0], 'L2Bridge'))
                if shared:
                    bads.append(('guardrail', rng.choice(shared)[0], 'L2PTP'))
                bads.append(('stale', ['stale', rng.randrange(2)], 'L2Bridge'))
                bads.append(('not-a-handle', rng.choice([['none'], ['name-instead-of-handle', 'nic1-p1']]), 'L2Bridge'))
                for why, bad, nst in bads:
                    if bad in good:
                        continue
                    ifs = list(good)
                    ifs.insert(j, bad)
                    out.append(('bad-interface-position', {'op': 'add_network_service', 'name': g.fresh('s'), 'node_id': nid('s'),
                                                           'nstype': nst, 'interfaces': ifs, 'why': why}))
        if snames:
            out.append(('dup-name', {'op': 'add_network_service', 'name': rng.choice(snames), 'node_id': None, 'nstype': 'L2Bridge',
                                     'interfaces': [free[0][0]] if free else None}))
        out.append(('dup-id', {'op': 'add_network_service', 'name': g.fresh('s'), 'node_id': rng.choice(any_ids), 'nstype': 'L2Bridge',
                               'interfaces': [free[0][0]] if free else None}))
        for pos in range(3):
            out.append(('bad-kw-position', {'op': 'add_network_service', 'name': g.fresh('s'), 'node_id': None, 'nstype': 'L2STS',
                                            'interfaces': [x[0] for x in free[:2]], 'kw': dict(list({'site': 'RENC', 'capacities': {'bw': 1}}.items())[:pos] +
                                                                                                 [rng.choice(bad_kw[:4])])}))
        if conn:
            out.append(('bad-interface-position', {'op': 'add_port_mirror_service', 'name': g.fresh('pm'), 'node_id': None, 'from': 'p1',
                                                   'to': rng.choice(conn)[0]}))
            top = tm.top_services()
            if top:
                out.append(('bad-interface-position', {'op': 'connect_interface', 'service': tm.name(rng.choice(top)), 'iface': rng.choice(conn)[0]}))
        top = tm.top_services()
        if len(top) >= 2:
            a, b = rng.sample(top, 2)
            # peer where the *other* side's port name already exists
            out.append(('peer-collision', {'op': 'peer', 'a': tm.name(a), 'b': tm.name(b), 'pre': 'b-has-port'}))
        # connect_interface derives the names '<node>-<iface>' / '<node>-<iface>-link': a plain link already carrying that name
        plainfree = [x for x in free if len(x[0]) == 2]
        if top and len(plainfree) >= 3:
            t0, l1, l2 = rng.sample(plainfree, 3)
            lname = f'{t0[0][0]}-{t0[0][1]}-link'
            out.append(('derived-name-collision', {'op': 'connect_interface', 'service': tm.name(rng.choice(top)), 'iface': t0[0],
                                                   'pre_ops': [{'op': 'add_link', 'name': lname, 'node_id': None, 'ltype': 'Patch',
                                                                'interfaces': [l1[0], l2[0]]}]}))
        # ... or the derived link name is longer than a name may be (the node's name is just short enough for its own parts)
        if top:
            ln = 'L' * 240 + g.fresh('n')[:4].ljust(4, 'x')
            out.append(('derived-name-collision', {'op': 'connect_interface', 'service': tm.name(rng.choice(top)), 'iface': [ln, 'nic1-p1'],
                                                   'pre_ops': [{'op': 'add_node', 'name': ln, 'node_id': None, 'site': site, 'ntype': 'VM'},
                                                               {'op': 'add_component', 'node': ln, 'name': 'nic1', 'node_id': None,
                                                                'model_type': 'SmartNIC_ConnectX_6'}]}))
        # the same two ways for peer(): '<a>-<b>-link' too long for a name, or already carried by the link of another pair
        u = g.fresh('q')
        la, lb = 'a' * 120 + u, 'b' * 121 + u
        out.append(('derived-name-collision', {'op': 'peer', 'a': la, 'b': lb,
                                               'pre_ops': [{'op': 'add_network_service', 'name': x, 'node_id': None, 'nstype': 'L3VPN', 'interfaces': None}
                                                           for x in (la, lb)]}))
        if 'cc' not in snames and 'bb-cc' not in snames:
            mk = lambda x: {'op': 'add_network_service', 'name': x, 'node_id': None, 'nstype': 'L3VPN', 'interfaces': None}
            out.append(('derived-name-collision', {'op': 'peer', 'a': u + '-aa-bb', 'b': 'cc',
                                                   'pre_ops': [mk(u + '-aa'), mk('bb-cc'), mk(u + '-aa-bb'), mk('cc'),
                                                               {'op': 'peer', 'a': u + '-aa', 'b': 'bb-cc'}]}))
    # --- sub-interfaces
    ded = [x for x in refs if tm.typ(x[1]) == 'DedicatedPort' and len(x[0]) == 2]
    if ded:
        ref, i = rng.choice(ded)
        ch = tm.children(i)
        out.append(('subinterface-vlan', {'op': 'add_child_interface', 'iface': ref, 'name': g.fresh('sub'), 'node_id': nid('sub'), 'kw': {}}))
        out.append(('subinterface-vlan', {'op': 'add_child_interface', 'iface': ref, 'name': g.fresh('sub'), 'node_id': nid('sub'),
                                          'kw': {'labels': {'vlan': '9999'}}}))
        if ch:
            lab = tm.n[ch[0]].get('Labels')
            import json
            v = json.loads(lab).get('vlan') if lab else None
            if v:
                out.append(('subinterface-vlan', {'op': 'add_child_interface', 'iface': ref, 'name': g.fresh('sub'), 'node_id': nid('sub'),
                                                  'kw': {'labels': {'vlan': v}}}))
            out.append(('dup-name', {'op': 'add_child_interface', 'iface': ref, 'name': tm.name(ch[0]), 'node_id': nid('sub'),
                                     'kw': {'labels': {'vlan': '77'}}}))
        out.append(('dup-id', {'op': 'add_child_interface', 'iface': ref, 'name': g.fresh('sub'), 'node_id': rng.choice(any_ids),
                               'kw': {'labels': {'vlan': '78'}}}))
    # --- links: j-th end stale / duplicate name / duplicate id / empty list
    if len(free) >= 1:
        for mm in (2, 3):
            for j in range(mm):
                ends = [x[0] for x in rng.sample(free, min(mm - 1, len(free)))]
                ends.insert(j, ['stale', rng.randrange(2)])
                out.append(('link-stale-end', {'op': 'add_link', 'name': g.fresh('l'), 'node_id': nid('l'), 'ltype': 'Patch', 'interfaces': ends}))
                # ... or the j-th element is not an interface handle at all (None, a name)
                ends2 = list(ends)
                ends2[min(j, len(ends2) - 1)] = rng.choice([['none'], ['name-instead-of-handle', 'nic1-p1']])
                out.append(('link-end-not-a-handle', {'op': 'add_link', 'name': g.fresh('l'), 'node_id': nid('l'), 'ltype': 'Patch', 'interfaces': ends2}))
        lnames = [tm.name(l) for l in tm.ids('Link')]
        if lnames and len(free) >= 2:
            out.append(('dup-name', {'op': 'add_link', 'name': rng.choice(lnames), 'node_id': nid('l'), 'ltype': 'Patch',
                                     'interfaces': [free[0][0], free[1][0]]}))
        if len(free) >= 2:
            out.append(('dup-id', {'op': 'add_link', 'name': g.fresh('l'), 'node_id': rng.choice(any_ids), 'ltype': 'Patch',
                                   'interfaces': [free[0][0], free[1][0]]}))
        out.append(('link-stale-end', {'op': 'add_link', 'name': g.fresh('l'), 'node_id': nid('l'), 'ltype': 'Patch', 'interfaces': []}))
    # --- substrate: node-level services and their interfaces
    nsvc = [(n, sv) for n in nodes for sv in tm.services_of(n)]
    if nsvc:
        n, sv = rng.choice(nsvc)
        inames = [tm.name(i) for i in tm.ifaces_of_service(sv)]
        out.append(('dup-name', {'op': 'add_node_service', 'node': tm.name(n), 'name': tm.name(sv), 'node_id': nid('ns'), 'nstype': 'MPLS'}))
        out.append(('dup-id', {'op': 'add_node_service', 'node': tm.name(n), 'name': g.fresh('ns'), 'node_id': rng.choice(any_ids), 'nstype': 'MPLS'}))
        if inames:
            out.append(('dup-name', {'op': 'service_add_interface', 'service': tm.name(sv), 'name': rng.choice(inames), 'node_id': nid('p'),
                                     'itype': 'TrunkPort'}))
        out.append(('dup-id', {'op': 'service_add_interface', 'service': tm.name(sv), 'name': g.fresh('p'), 'node_id': rng.choice(any_ids),
                               'itype': 'TrunkPort'}))
        for pos in range(2):
            out.append(('bad-kw-position', {'op': 'service_add_interface', 'service': tm.name(sv), 'name': g.fresh('p'), 'node_id': nid('p'),
                                            'itype': 'TrunkPort', 'kw': dict(list({'capacities': {'bw': 1}}.items())[:pos] + [bad_kw[0]])}))
    # --- a call that works port by port where a later port has nothing to give: copy_to_peer_labels with a label-less peer
    if not sub:
        u = g.fresh('cp')
        pre = []
        for x in (u + 'a', u + 'b', u + 'c'):
            pre += [{'op': 'add_node', 'name': x, 'node_id': None, 'site': site, 'ntype': 'VM'},
                    {'op': 'add_component', 'node': x, 'name': 'nic1', 'node_id': None, 'model_type': 'SmartNIC_ConnectX_6'}]
        pre.append({'op': 'add_network_service', 'name': u + '-svc', 'node_id': None, 'nstype': 'L2STS',
                    'interfaces': [[u + 'a', 'nic1-p1'], [u + 'b', 'nic1-p1'], [u + 'c', 'nic1-p1']]})
        pre.append({'op': 'unset_property', 'elem': ['iface', u + rng.choice('bc'), 'nic1-p1'], 'pname': 'labels'})
        out.append(('label-less-peer', {'op': 'copy_to_peer_labels', 'service': u + '-svc', 'pre_ops': pre}))
    # --- rename / set_property with invalid values
    el = g.pick_elem(tm)
    if el:
        out.append(('bad-name', {'op': 'rename', 'elem': el, 'new': rng.choice(['', 'x' * 300, 'bad\tname'])}))
        out.append(('bad-kw-position', {'op': 'set_property', 'elem': el, 'pname': 'labels', 'val': {'vlan': '70000'}}))
        out.append(('bad-kw-position', {'op': 'set_properties', 'elem': el, 'kw': {'details': 'changed-' + g.fresh('d'), 'nosuchprop': 1}}))
        out.append(('bad-kw-position', {'op': 'set_properties', 'elem': el, 'kw': {'nosuchprop': 1, 'details': 'changed-' + g.fresh('d')}}))
        out.append(('bad-kw-position', {'op': 'set_properties', 'elem': el, 'kw': {'details': 'changed-' + g.fresh('d'), 'boot_script': 'x' * 3000}}))
        # a bulk update that clears one property (None) and carries a bad one, either order: whatever None means to the library,
        # the rejected call leaves the property as it was
        keep = 'keep-' + g.fresh('d')
        for kwv in ({'details': None, 'nosuchprop': 1}, {'nosuchprop': 1, 'details': None}, {'details': None, 'labels': {'vlan': '70000'}}):
            out.append(('bad-kw-position', {'op': 'set_properties', 'elem': el, 'kw': kwv,
                                            'pre_ops': [{'op': 'set_property', 'elem': el, 'pname': 'details', 'val': keep}]}))
    return out


def stale_service_ops(rng, topo, flavour):
    """Calls that involve a handle of a service removed since (users keep handles): they must be refused whole."""
    tm = topogen.tm_of(topo)
    g = topogen.Gen(rng, topo, flavour, p_valid=1.0)
    g.k = 20000 + rng.randrange(1000)
    sub = flavour == 'substrate'
    out = []
    for k in (0, 1):
        out.append(('stale-service', {'op': 'service_add_interface', 'service': ['stale', k], 'name': g.fresh('p'),
                                      'node_id': g.fresh('p-id') if sub else None, 'itype': 'TrunkPort'}))
    l3 = [tm.name(s) for s in tm.ids('NetworkService') if tm.typ(s) == 'L3VPN']
    if l3:
        live = rng.choice(l3)
        out.append(('stale-service', {'op': 'peer', 'a': live, 'b': ['stale', 1]}))
        out.append(('stale-service', {'op': 'peer', 'a': ['stale', 1], 'b': live}))
    return out


def run_targeted(ctx, imp, store, flavour, tag):
    rng = ctx.subrng('target', tag)
    topogen.seed_uuid(f'{ctx.seed}/{ctx.shard}/t{tag}')
    imp.delete_all_graphs()
    # a second, unrelated graph in the same store: a leak into it must show as well
    other = topogen.new_topology(imp, 'experiment')
    other.add_node(name='bystander', site='X')
    topo = topogen.new_topology(imp, flavour)
    hist = []

    def hook(op, res, exc):
        if res == 'ok':
            hist.append(op)
    topogen.run_history(rng, topo, rng.randrange(10, 35), flavour, hook, p_valid=1.0)
    stale_op = {'op': 'make_stale_ifaces', 'name': 'stale-holder', 'node_id': 'stale-holder-id' if flavour == 'substrate' else None,
                'substrate': flavour == 'substrate'}
    try:
        topogen.execute(topo, stale_op)
        hist.append(stale_op)
    except Exception:
        pass
    stale_sv = {'op': 'make_stale_services', 'node_id': 'stale-svc-a-id' if flavour == 'substrate' else None,
                'node_id2': 'stale-svc-b-id' if flavour == 'substrate' else None}
    have_stale_sv = False
    try:
        topogen.execute(topo, stale_sv)
        hist.append(stale_sv)
        have_stale_sv = True
    except Exception:
        pass
    todo = targeted_ops(rng, topo, flavour)
    if have_stale_sv:
        todo += stale_service_ops(rng, topo, flavour)
    for kind, op in todo:
        if op.get('pre') == 'b-has-port':
            # make the second add_interface of peer() fail: the other service already owns a port of that name
            try:
                topogen.execute(topo, {'op': 'service_add_interface', 'service': op['b'], 'name': f"{op['b']}-{op['a']}",
                                       'node_id': None, 'itype': 'TrunkPort'})
                hist.append({'op': 'service_add_interface', 'service': op['b'], 'name': f"{op['b']}-{op['a']}", 'itype': 'TrunkPort'})
            except Exception:
                continue
        if op.get('pre_ops'):
            try:
                for po in op['pre_ops']:
                    topogen.execute(topo, po)
                    hist.append(po)
            except Exception:
                ctx.count('target-setup-refused:' + kind)
                continue
        r = attempt(ctx, imp, topo, op, 'targeted', flavour, store, hist=list(hist))
        if r in ('raise', 'violation'):
            ctx.count('target:' + kind)
            hist.append(dict(op, _outcome=r))
        elif r == 'ok':
            ctx.count('target-accepted:' + kind + ':' + op['op'])
            hist.append(op)
    return hist


def run(ctx):
    from vlib import toporules
    VOC[0] = toporules.load_vocab()[0]
    imps = rawgraph.importers()
    n = ctx.pick(14, 300)
    for i in range(n):
        store = 'shared' if i % 3 != 2 else 'disjoint'
        flavour = 'experiment' if i % 2 == 0 else 'substrate'
        imp = imps[store][0]
        # (a) hook over a random history
        rng = ctx.subrng('hist', i)
        topogen.seed_uuid(f'{ctx.seed}/{ctx.shard}/h{i}')
        imp.delete_all_graphs()
        topo = topogen.new_topology(imp, flavour)
        g = topogen.Gen(rng, topo, flavour, p_valid=0.6)
        hist = []
        for _ in range(rng.randrange(20, 60)):
            op = g.next_op()
            r = attempt(ctx, imp, topo, op, 'history', flavour, store, hist=list(hist))
            # the witness history lists every call with its outcome (refused calls may still have touched a kept handle)
            hist.append(op if r == 'ok' else dict(op, _outcome=r))
            if r == 'violation':
                break           # what follows a broken call would be judged on a model outside the domain
        # (b) targeted
        h = run_targeted(ctx, imp, store, flavour, i)
        if i == 0:
            ctx.sample({'flavour': flavour, 'setup': h[:5]})
        if ctx.out_of_time():
            break
    for imp, _ in imps.values():
        imp.delete_all_graphs()


def replay(ctx, case):
    from vlib import toporules
    VOC[0] = toporules.load_vocab()[0]
    imps = rawgraph.importers()
    w = case['witness']
    imp = imps[w['store']][0]
    imp.delete_all_graphs()
    topogen.seed_uuid('replay')
    topo = topogen.new_topology(imp, w['flavour'])
    for op in w.get('history') or []:
        try:
            topogen.execute(topo, op)
        except Exception:
            pass
    attempt(ctx, imp, topo, w['op'], 'targeted', w['flavour'], w['store'])


LEVEL_TEXT = ('Runtime monitoring with a snapshot hook around every building call: when the call raises, the canonical snapshot of the '
              'whole store must equal the one taken before. Fault enumeration over argument rejections: random histories with '
              'invalid arguments plus a generator that places the rejected argument (duplicate name/id, invalid value, unknown '
              'keyword, bad interface, bad facility tuple, colliding interface id, stale link end) at every position of composite '
              'calls, on both topology flavours and both stores. Held on the raising calls observed.')
LEVEL_NOTE = ('Trusted: canonical snapshots of the store. Not covered: exceptions injected at internal lines (no transaction '
              'mechanism is promised), the state of the handle object itself.')
TECHNIQUE = 'snapshot-equality hook around raising calls + enumeration of rejected-argument positions'
