"""C10 - slice validation accepts a topology exactly when the constraint tables allow it.

Oracle: vlib/constraints_ref.py holds a PINNED copy of ServiceConstraints / NodeConstraints and evaluates the
generator's own DESCRIPTION of the slice it built (never the graph).  The live tables are first diffed against the
pin.  Every slice is built through the public API on an ExperimentTopology (in-memory importer), validate() is
called, and accept/reject is compared with the oracle; after an accepted validation the recorded site of every
single-site service is compared with the site of its connected nodes.  The connect-time guard-rail is exercised
through the constructor and through a later connect_interface().
"""
import copy
import os
import contextlib
import random

from vlib import constraints_ref as R
from vlib import rawgraph, topogen

PROPERTY = 'C10'
LEVEL = 'exploration'
SHARDS = {'quick': 4, 'thorough': 16}
TIME_BUDGET = {'quick': 400, 'thorough': 3300}     # safety net only: the workload is fixed, not time-boxed
EXHAUSTIVE = {'thorough': True}

TYPES = list(R.PIN_SERVICE)
NODE_TYPES = list(R.PIN_NODE)
KINDS = ['SharedPort', 'DedicatedPort', 'SubInterface', 'FacilityPort', 'SwitchPort', 'TrunkPort']
KIND_ITYPE = {'SharedPort': 'SharedPort', 'DedicatedPort': 'DedicatedPort', 'SubInterface': 'SubInterface',
              'FacilityPort': 'FacilityPort', 'SwitchPort': 'DedicatedPort', 'TrunkPort': 'TrunkPort'}
SITES = ['RENC', 'UKY', 'LBNL']
WRONG_SITE = 'STAR'
PROP_VALUES = {'mirror_port': 'nic-p2', 'mirror_vlan': '100', 'mirror_direction': 'Both',
               'controller_url': 'http://ctl.example.org:6653', 'ero': ['10.1.1.1', '10.1.1.2']}
# property variants of the product space (index -> properties set on the service)
PROPVARS = [
    {},
    {'mirror_port': PROP_VALUES['mirror_port']},
    {'mirror_vlan': PROP_VALUES['mirror_vlan']},
    {'mirror_direction': PROP_VALUES['mirror_direction']},
    {'controller_url': PROP_VALUES['controller_url']},
    {'ero': PROP_VALUES['ero']},
    {'mirror_port': PROP_VALUES['mirror_port'], 'mirror_direction': PROP_VALUES['mirror_direction']},
    {'mirror_port': PROP_VALUES['mirror_port'], 'mirror_vlan': PROP_VALUES['mirror_vlan'],
     'mirror_direction': 'RX_Only'},
    {'controller_url': '', 'mirror_vlan': ''},          # present but falsy: counts as absent ("by truthiness")
    {'ero': {'graph': 'external-path-graph-1'}},        # an explicit route given as a reference to a graph built elsewhere
    {'ero': {'path': []}},                              # ... and as a path without a single hop: both are routes that are set
    'mirror-api',                                       # add_port_mirror_service (PortMirror only, >= 1 interface)
    {'mirror_port': PROP_VALUES['mirror_port'], 'mirror_direction': 'TX_Only', 'controller_url': PROP_VALUES['controller_url']},
]
S_DIMS = [len(TYPES), 5, 3, 3, len(KINDS) + 1, len(PROPVARS), 2]
S_TOTAL = 1
for _d in S_DIMS:
    S_TOTAL *= _d

RULE = ('described slices built through the public API on an ExperimentTopology: product of 15 service types x 0..4 connected '
        'interfaces x site placement (one/two/three sites) x declared site (absent/right/wrong) x interface kind (SharedPort, '
        'DedicatedPort of a SmartNIC, SubInterface, FacilityPort, DedicatedPort of a switch, TrunkPort of a switch service; uniform or '
        'mixed) x 11 property variants (each constrained property alone, combinations, falsy values, add_port_mirror_service) x '
        'interfaces given to the constructor / connected later; 6 node types x site set/empty/unset x image x management_ip x '
        'attached components x construction path; guard-rail matrix 15 types x 6 kinds x 4 connect positions; dangling / '
        'two-peer service ports; substrate topologies (no interface-count clause); variant tables (live table and oracle '
        'patched identically: num_instances and other cells); random multi-service mixes. Quick = sample of the service product '
        'stratified by the oracle so that every (type, clause) pair occurs accepted and as the only failing clause, thorough = the '
        'whole product. One evaluation = one slice validated (or one guard-rail attempt); distinct by its description; '
        'non-trivial when it has a user service or a node with a non-default property')

_NODE_REQ = []
for _nt, _C in R.PIN_NODE.items():
    for _p in _C['required_properties']:
        _NODE_REQ += [f'nodeclause:{_nt}:node-required:{_p}:accept', f'nodeclause:{_nt}:node-required:{_p}:reject']
    for _p in _C['forbidden_properties']:
        _NODE_REQ += [f'nodeclause:{_nt}:node-forbidden:{_p}:accept', f'nodeclause:{_nt}:node-forbidden:{_p}:reject']
REQUIRED = (['pin-diff-evaluated', 'pin-cells-compared', 'validate-calls', 'agree-after-reload:accept', 'agree-after-reload:reject', 'agree:accept', 'agree:reject', 'site-recorded-checked',
             'guardrail:ctor:refused-as-pinned', 'guardrail:ctor:allowed-as-pinned', 'guardrail:connect:allowed-as-pinned',
             'guardrail:connect:pinned-refusal-attempted',
             'cases:S', 'cases:N', 'cases:G', 'cases:P', 'cases:U', 'cases:V', 'cases:R', 'cases:D', 'cases:X', 'variant:num-instances:reject',
             'variant:num-instances:accept'] +
            [f'clause:{t}:{c}:{d}' for t, c, d in R.required_pairs()] + _NODE_REQ)
ASSUMPTIONS = ['the pinned tables were transcribed by hand from the repository at the time the check was written; the free-text '
               'field `desc` is not pinned',
               'image_type and image_ref are always set together (the model stores them as one pair; a lone value is not '
               'retained, which is a conversion matter of C02)',
               'an owning node without a site is only used in node cases (the statement does not say how it counts towards '
               'the number of sites)',
               'when validate() rejects a slice in which several clauses fail, any rejection is accepted; only accept/reject '
               'and the recorded site are judged, not the message',
               'the recorded site is demanded for services whose type is limited to one site (num_sites == 1)',
               'held on the executions observed, not a proof']


# ======================================================================================= descriptions
def s_decode(idx):
    out = []
    for d in reversed(S_DIMS):
        out.append(idx % d)
        idx //= d
    return tuple(reversed(out))


def iface_block(name, site, kind):
    """Described node that offers one interface of `kind` + the reference of that interface."""
    if kind in ('SharedPort', 'DedicatedPort', 'SubInterface'):
        nd = {'name': name, 'ntype': 'VM', 'via': 'add_node', 'site': site,
              'components': [{'name': 'nic', 'model_type': 'SharedNIC_ConnectX_6' if kind == 'SharedPort' else 'SmartNIC_ConnectX_6'}]}
        ref = [name, 'nic-p1']
        if kind == 'SubInterface':
            nd['subs'] = [{'port': 'nic-p1', 'name': 'sub', 'vlan': '100'}]
            ref = [name, 'nic-p1', 'sub']
    elif kind == 'FacilityPort':
        nd = {'name': name, 'ntype': 'Facility', 'via': 'add_facility', 'site': site, 'fac_ports': 1}
        ref = [name, name + '-int']
    elif kind == 'SwitchPort':
        nd = {'name': name, 'ntype': 'Switch', 'via': 'add_switch', 'site': site, 'nports': 2}
        ref = [name, 'p1']
    elif kind == 'TrunkPort':
        nd = {'name': name, 'ntype': 'Switch', 'via': 'add_node', 'site': site,
              'node_services': [{'name': name + '-mpls', 'nstype': 'MPLS', 'ports': [{'name': 'tp1', 'itype': 'TrunkPort'}]}]}
        ref = [name, 'tp1']
    else:
        raise AssertionError(kind)
    return nd, {'ref': ref, 'node': name, 'itype': KIND_ITYPE[kind], 'kind': kind}


def s_desc(params, prefix=''):
    """Description of one point of the service product, or None when the combination does not exist."""
    ti, count, placement, declared, kindpat, pv, via = params
    T = TYPES[ti]
    if placement == 1 and count < 2 or placement == 2 and count < 3:
        return None
    props = PROPVARS[pv]
    if props == 'mirror-api':
        if T != 'PortMirror' or count < 1:
            return None
    nodes, ifaces = [], []
    for i in range(count):
        site = SITES[0] if placement == 0 else SITES[i % (placement + 1)]
        kind = KINDS[kindpat] if kindpat < len(KINDS) else KINDS[(ti + count + i) % len(KINDS)]
        nd, it = iface_block(f'{prefix}n{i}', site, kind)
        nodes.append(nd)
        ifaces.append(it)
    sv = {'name': f'{prefix}svc', 'nstype': T, 'via': 'ctor' if via == 0 else 'connect',
          'declared': None if declared == 0 else (SITES[0] if declared == 1 else WRONG_SITE), 'ifaces': ifaces}
    if props == 'mirror-api':
        sv['via'] = 'mirror-api'
        sv['props'] = {'mirror_port': 'nic-p2', 'mirror_direction': 'Both' if via == 0 else 'TX_Only'}
        if via == 1:
            sv['props']['mirror_vlan'] = '200'
    else:
        sv['props'] = dict(props)
    return {'space': 'S', 'flavour': 'experiment', 'params': list(params), 'nodes': nodes, 'services': [sv]}


def n_space():
    out = []
    for nt in NODE_TYPES:
        for site_state in ('set', 'empty', 'unset'):
            for image in (False, True):
                for mgmt in (False, True):
                    for comps in ('none', 'gpu', 'nic'):
                        for via in ('add_node', 'native'):
                            for propvia in ('ctor', 'set'):
                                if via == 'native' and (nt not in ('Switch', 'Facility') or propvia == 'ctor'):
                                    continue
                                nd = {'name': 'nx', 'ntype': nt, 'site': SITES[0], 'site_state': site_state, 'image': image,
                                      'management_ip': mgmt, 'propvia': propvia,
                                      'via': 'add_node' if via == 'add_node' else ('add_switch' if nt == 'Switch' else 'add_facility')}
                                if nd['via'] == 'add_switch':
                                    nd['nports'] = 2
                                if nd['via'] == 'add_facility':
                                    nd['fac_ports'] = 2
                                if comps == 'gpu':
                                    nd['components'] = [{'name': 'gpu1', 'model_type': 'GPU_A30'}]
                                elif comps == 'nic':
                                    nd['components'] = [{'name': 'nic1', 'model_type': 'SharedNIC_ConnectX_6'}]
                                out.append({'space': 'N', 'flavour': 'experiment', 'nodes': [nd], 'services': []})
    return out


def base_service(T, prefix='', site=None, kind='DedicatedPort'):
    """A slice with one valid service of type T (as few interfaces as the pin allows, one site)."""
    P = R.PIN_SERVICE[T]
    count = max(P['min_interfaces'], 1)
    nodes, ifaces = [], []
    for i in range(count):
        nd, it = iface_block(f'{prefix}n{i}', site or SITES[0], kind)
        nodes.append(nd)
        ifaces.append(it)
    props = {}
    for rp in P['required_properties']:
        if rp != 'site':
            props[rp] = PROP_VALUES[rp]
    sv = {'name': f'{prefix}svc', 'nstype': T, 'via': 'ctor', 'declared': None, 'ifaces': ifaces, 'props': props}
    return {'space': 'P', 'flavour': 'experiment', 'nodes': nodes, 'services': [sv]}


def p_space():
    out = []
    for T in TYPES:
        for mode in ('none', 'dangling', 'twopeer'):
            d = base_service(T)
            sv = d['services'][0]
            if mode == 'dangling':
                sv['dangling'] = 1
            elif mode == 'twopeer':
                d['nodes'].append({'name': 'nq', 'ntype': 'VM', 'via': 'add_node', 'site': SITES[0],
                                   'components': [{'name': 'nic', 'model_type': 'SmartNIC_ConnectX_6'}]})
                sv['twopeer'] = [['nq', 'nic-p1'], ['nq', 'nic-p2']]
            d['mode'] = mode
            out.append(d)
    # a switch created with no ports: its own P4 service has fewer interfaces than the minimum
    for nports in (0, 1):
        out.append({'space': 'P', 'flavour': 'experiment', 'mode': f'switch-{nports}-ports', 'services': [],
                    'nodes': [{'name': 'sw0', 'ntype': 'Switch', 'via': 'add_switch', 'site': SITES[0], 'nports': nports}]})
    return out


def u_space():
    """Substrate topologies: the interface-count clauses do not apply, all other clauses do."""
    out = []
    for T in TYPES:
        for nports in (0, 1, 3):
            for withprops in (False, True):
                P = R.PIN_SERVICE[T]
                props = {rp: PROP_VALUES[rp] for rp in P['required_properties'] if rp != 'site'} if withprops else {}
                if withprops and not props:
                    props = {'controller_url': PROP_VALUES['controller_url']}
                ns = {'name': 'sw-svc', 'nstype': T, 'props': props, 'ports': [{'name': f'q{i}', 'itype': 'DedicatedPort'} for i in range(nports)]}
                out.append({'space': 'U', 'flavour': 'substrate', 'services': [],
                            'nodes': [{'name': 'sw', 'ntype': 'Switch', 'via': 'add_node', 'site': SITES[0], 'node_services': [ns]}]})
    return out


def d_space():
    """Several interfaces of ONE node that carry the same name (sub-interface names are only unique within their parent
    port): the service-side ports then share a name too; every one of them still counts."""
    out = []
    for T in TYPES:
        P = R.PIN_SERVICE[T]
        for count in (2, 3):
            ports = ['nic-p1', 'nic-p2', 'nic2-p1'][:count]
            nd = {'name': 'nd', 'ntype': 'VM', 'via': 'add_node', 'site': SITES[0],
                  'components': [{'name': 'nic', 'model_type': 'SmartNIC_ConnectX_6'}, {'name': 'nic2', 'model_type': 'SmartNIC_ConnectX_6'}],
                  'subs': [{'port': p, 'name': 'child', 'vlan': str(100 + i)} for i, p in enumerate(ports)]}
            ifaces = [{'ref': ['nd', p, 'child'], 'node': 'nd', 'itype': 'SubInterface', 'kind': 'SubInterface'} for p in ports]
            props = {rp: PROP_VALUES[rp] for rp in P['required_properties'] if rp != 'site'}
            sv = {'name': 'svc', 'nstype': T, 'via': 'ctor', 'declared': None, 'ifaces': ifaces, 'props': props}
            out.append({'space': 'D', 'flavour': 'experiment', 'nodes': [nd], 'services': [sv]})
    return out


def x_space():
    """Interfaces of DIFFERENT kinds in one service, for the types that permit only some kinds: every ordered pair of kinds,
    given to the constructor / connected afterwards (a rule that holds for one interface must hold for each of them)."""
    out = []
    for T in TYPES:
        P = R.PIN_SERVICE[T]
        if not P.get('required_interface_types'):
            continue
        props = {rp: PROP_VALUES[rp] for rp in P['required_properties'] if rp != 'site'}
        for k1 in KINDS:
            for k2 in KINDS:
                if k1 == k2:
                    continue
                for via in ('ctor', 'connect'):
                    n1, i1 = iface_block('xa', SITES[0], k1)
                    n2, i2 = iface_block('xb', SITES[0], k2)
                    sv = {'name': 'svc', 'nstype': T, 'via': via, 'declared': None, 'ifaces': [i1, i2], 'props': dict(props)}
                    out.append({'space': 'X', 'flavour': 'experiment', 'nodes': [n1, n2], 'services': [sv]})
    return out


def g_space():
    out = []
    for T in TYPES:
        for kind in KINDS:
            for mode in ('ctor-first', 'ctor-second', 'connect-first', 'connect-second', 'ctor-busy', 'connect-busy',
                         'connect-first-lookup', 'connect-second-lookup'):
                out.append({'space': 'G', 'nstype': T, 'kind': kind, 'mode': mode})
    return out


def combine(descs, extra_nodes=()):
    nodes, services = [], []
    for d in descs:
        nodes += d['nodes']
        services += d['services']
    return {'space': 'R', 'flavour': 'experiment', 'nodes': nodes + list(extra_nodes), 'services': services}


def r_desc(rng):
    k = rng.choice([1, 2, 2, 3])
    parts = []
    for j in range(k):
        while True:
            p = s_decode(rng.randrange(S_TOTAL))
            if rng.random() < 0.6:
                # bias towards slices that are valid on their own, so that mixes are not all rejected
                p = (p[0], max(p[1], R.PIN_SERVICE[TYPES[p[0]]]['min_interfaces']), 0, rng.choice([0, 0, 1]), 1, 0, p[6])
            d = s_desc(p, prefix='abc'[j])
            if d is not None:
                parts.append(d)
                break
    extra = []
    if rng.random() < 0.4:
        nd = dict(rng.choice(N_SPACE)['nodes'][0])
        nd['name'] = 'extra'
        if nd.get('components'):
            nd['components'] = [dict(c) for c in nd['components']]
        extra.append(nd)
    return combine(parts, extra)


def v_space():
    """(overrides, description) pairs: the live table is patched exactly like the oracle's copy."""
    out = []
    for T in ('L2Bridge', 'FABNetv4', 'PortMirror'):
        for limit in (1, 2):
            for m in (1, 2, 3):
                for pattern in ('same', 'different', 'two-one'):
                    if pattern == 'two-one' and m < 3:
                        continue
                    for declared in (False, True):
                        parts = []
                        for j in range(m):
                            site = SITES[0] if pattern == 'same' else (SITES[j] if pattern == 'different' else SITES[j // 2])
                            d = base_service(T, prefix='abc'[j], site=site)
                            if declared:
                                d['services'][0]['declared'] = site
                            parts.append(d)
                        d = combine(parts)
                        d['space'] = 'V'
                        d['table'] = {'service': {T: {'num_instances': limit}}}
                        d['variant'] = 'num-instances'
                        out.append(d)
    # the services that NIC components bring along count as instances as well
    for same in (True, False):
        nodes = [{'name': f'v{j}', 'ntype': 'VM', 'via': 'add_node', 'site': SITES[0] if same else SITES[j],
                  'components': [{'name': 'nic', 'model_type': 'SharedNIC_ConnectX_6'}]} for j in range(2)]
        out.append({'space': 'V', 'flavour': 'experiment', 'nodes': nodes, 'services': [], 'variant': 'num-instances',
                    'table': {'service': {'OVS': {'num_instances': 1}}}})
    # other cells: validate() must follow the table, not a hard-wired copy of it
    cells = [('L2Bridge', {'min_interfaces': 2}), ('FABNetv4', {'num_interfaces': 2}), ('L2Bridge', {'num_sites': 2}),
             ('FABNetv6', {'required_interface_types': ['DedicatedPort']}), ('OVS', {'required_properties': ['controller_url']}),
             ('L2STS', {'forbidden_properties': ['mirror_port']}), ('L2PTP', {'num_interfaces': 3, 'num_sites': 3}),
             ('L3VPN', {'num_sites': 1}), ('P4', {'forbidden_properties': ['controller_url']})]
    rng = random.Random('C10/v-space')
    for T, cell in cells:
        ti = TYPES.index(T)
        n = 0
        while n < 14:
            p = (ti,) + s_decode(rng.randrange(S_TOTAL))[1:]
            if rng.random() < 0.5:
                p = (ti, p[1], p[2], p[3], rng.choice([0, 1, 1, 6]), rng.choice([0, 0, 4, 1]), p[6])
            if p[3] == 2:
                p = p[:3] + (rng.choice([0, 1]),) + p[4:]      # no wrong declared site here (judged in the S space)
            d = s_desc(p)
            if d is None or any(R.guardrailed(T, it['itype']) for it in d['services'][0]['ifaces']):
                continue
            d['space'] = 'V'
            d['table'] = {'service': {T: dict(cell)}}
            d['variant'] = 'cell:' + ','.join(sorted(cell))
            out.append(d)
            n += 1
    return out


N_SPACE = n_space()


# ======================================================================================= building
class Refusal(Exception):
    """A TopologyException raised by the constructor / connect_interface of a user service."""

    def __init__(self, stage, service, iface, exc):
        super().__init__(f'{stage}: {exc}')
        self.stage, self.service, self.iface, self.exc = stage, service, iface, exc


class HarnessProblem(Exception):
    pass


def _mk_prop(name, val):
    if val is None:
        return None
    if name == 'mirror_direction':
        from fim.slivers.network_service import MirrorDirection
        return MirrorDirection[val]
    if name == 'ero':
        from fim.slivers.path_info import ERO, Path
        if isinstance(val, dict) and 'graph' in val:
            from fim.slivers.path_info import PathRepresentationType
            e = ERO(PathRepresentationType.Graph)
            e.set(val['graph'])
            return e
        e, p = ERO(), Path()
        p.set_symmetric(list(val['path'] if isinstance(val, dict) else val))
        e.set(p)
        return e
    return val


def build_node(topo, nd, substrate=False):
    from fim.user import NodeType, ComponentModelType, ServiceType, InterfaceType, Labels, Capacities
    name = nd['name']
    nid = (lambda s: f'{name}-{s}-id') if substrate else (lambda s: None)
    st = nd.get('site_state', 'set')
    site = '' if st == 'empty' else nd['site']
    kw = {}
    late = {}
    if nd.get('image'):
        late.update(image_type='qcow2', image_ref='default_rocky_8')
    if nd.get('management_ip'):
        late.update(management_ip='10.20.30.40')
    via = nd.get('via', 'add_node')
    if via == 'add_node' and nd.get('propvia', 'ctor') == 'ctor':
        kw, late = late, {}
    if via == 'add_node':
        n = topo.add_node(name=name, node_id=nid('node'), site=site, ntype=NodeType[nd['ntype']], **kw)
    elif via == 'add_switch':
        n = topo.add_switch(name=name, node_id=nid('node'), site=site, nports=nd.get('nports', 8))
    elif via == 'add_facility':
        k = nd.get('fac_ports', 1)
        if k == 1:
            n = topo.add_facility(name=name, node_id=nid('node'), site=site, labels=Labels(vlan_range='100-200'),
                                  capacities=Capacities(bw=10))
        else:
            n = topo.add_facility(name=name, node_id=nid('node'), site=site,
                                  interfaces=[(f'{name}-int{j}', Labels(vlan_range='100-200'), Capacities(bw=10)) for j in range(k)])
    else:
        raise AssertionError(via)
    if n.type.name != nd['ntype']:
        raise HarnessProblem(f'node {name} has type {n.type}, described {nd["ntype"]}')
    if late:
        n.set_properties(**late)
    if st == 'unset':
        n.set_property('site', None)
    for c in nd.get('components') or []:
        comp = n.add_component(name=c['name'], model_type=ComponentModelType[c['model_type']])
        got = sorted((i.name, i.type.name) for i in comp.interface_list)
        want = sorted((f"{c['name']}-{p}", t) for p, t in R.COMPONENT_PORTS[c['model_type']])
        if got != want:
            raise HarnessProblem(f'component {c["model_type"]} has ports {got}, described {want}')
    for s in nd.get('node_services') or []:
        props = {k: _mk_prop(k, v) for k, v in (s.get('props') or {}).items()}
        ns = n.add_network_service(name=s['name'], node_id=nid(s['name']), nstype=ServiceType[s['nstype']], **props)
        for p in s.get('ports') or []:
            ns.add_interface(name=p['name'], node_id=nid(p['name']), itype=InterfaceType[p['itype']])
    for sb in nd.get('subs') or []:
        n.interfaces[sb['port']].add_child_interface(name=sb['name'], labels=Labels(vlan=sb['vlan']))
    return n


def resolve(topo, it):
    try:
        h = topogen.get_iface(topo, it['ref'])
    except topogen.Unresolved as e:
        raise HarnessProblem(f'interface {it["ref"]} not offered by the views: {e}')
    if h.type.name != it['itype']:
        raise HarnessProblem(f'interface {it["ref"]} has type {h.type}, described {it["itype"]}')
    return h


def build_service(topo, sv, on_refusal=None):
    """Create one user service as described.  TopologyExceptions of the constructor / connect_interface are reported
    as Refusal (the caller decides what they mean)."""
    from fim.user import ServiceType, InterfaceType, LinkType
    from fim.user.model_element import TopologyException
    hs = [resolve(topo, it) for it in sv.get('ifaces') or []]
    props = {k: _mk_prop(k, v) for k, v in (sv.get('props') or {}).items()}
    via = sv.get('via', 'ctor')
    name = sv['name']
    if via == 'mirror-api':
        from fim.slivers.network_service import MirrorDirection
        kw = {}
        if sv.get('declared') is not None:
            kw['site'] = sv['declared']
        try:
            s = topo.add_port_mirror_service(name=name, from_interface_name=sv['props']['mirror_port'], to_interface=hs[0],
                                             from_interface_vlan=sv['props'].get('mirror_vlan'),
                                             direction=MirrorDirection[sv['props']['mirror_direction']], **kw)
        except TopologyException as e:
            raise Refusal('ctor', sv, sv['ifaces'][0], e)
        rest = list(zip(sv['ifaces'][1:], hs[1:]))
    elif via == 'ctor':
        kw = dict(props)
        if sv.get('declared') is not None:
            kw['site'] = sv['declared']
        try:
            s = topo.add_network_service(name=name, nstype=ServiceType[sv['nstype']], interfaces=hs, **kw)
        except TopologyException as e:
            raise Refusal('ctor', sv, None, e)
        rest = []
    elif via == 'connect':
        s = topo.add_network_service(name=name, nstype=ServiceType[sv['nstype']])
        rest = list(zip(sv.get('ifaces') or [], hs))
    else:
        raise AssertionError(via)
    for it, h in rest:
        try:
            s.connect_interface(h)
        except TopologyException as e:
            raise Refusal('connect', sv, it, e)
    if via == 'connect':
        for k, v in props.items():
            s.set_property(k, v)
        if sv.get('declared') is not None:
            s.site = sv['declared']
    if sv.get('dangling'):
        s.add_interface(name='dangling-sp', itype=InterfaceType.ServicePort)
    if sv.get('twopeer'):
        sp = s.add_interface(name='twopeer-sp', itype=InterfaceType.ServicePort)
        ends = [topogen.get_iface(topo, r) for r in sv['twopeer']]
        topo.add_link(name=name + '-l3', ltype=LinkType.L2Path, interfaces=[sp] + ends)
    return s


def build(topo, desc):
    sub = desc.get('flavour') == 'substrate'
    nodes = {}
    for nd in desc.get('nodes') or []:
        nodes[nd['name']] = build_node(topo, nd, sub)
    services = {}
    for sv in desc.get('services') or []:
        services[sv['name']] = build_service(topo, sv)
    return {'nodes': nodes, 'services': services}


@contextlib.contextmanager
def live_override(overrides):
    """Patch cells of the live tables (the records are mutable) and restore them afterwards."""
    from fim.slivers.network_service import NetworkServiceSliver, ServiceType
    from fim.slivers.interface_info import InterfaceType
    saved = []
    try:
        for T, cells in ((overrides or {}).get('service') or {}).items():
            rec = NetworkServiceSliver.ServiceConstraints[ServiceType[T]]
            for f, v in cells.items():
                saved.append((rec, f, getattr(rec, f)))
                setattr(rec, f, [InterfaceType[x] for x in v] if f == 'required_interface_types' else
                        (list(v) if isinstance(v, list) else v))
        yield
    finally:
        for rec, f, v in reversed(saved):
            setattr(rec, f, v)


# ======================================================================================= judging
def msg_clause(msg):
    m = msg or ''
    if 'Limit at least' in m:
        return 'min-interfaces'
    if 'Limit at most' in m:
        return 'max-interfaces'
    if 'cannot span' in m:
        return 'num-sites'
    if 'originally specified site' in m:
        return 'declared-site-mismatch'
    if 'is multi-site, but site' in m:
        return 'declared-site-on-multisite'
    if 'unexpected number of peer interfaces' in m or 'unexpected' in m and 'peer' in m:
        return 'one-peer'
    if 'must use one of the following interface types' in m:
        return 'interface-type'
    if 'cannot have more than' in m:
        return 'num-instances'
    if m.startswith('Service of type'):
        if 'must NOT have property' in m:
            return 'forbidden-property'
        if 'must have property' in m:
            return 'required-property'
    if m.startswith('Node of type'):
        if 'must NOT have property' in m:
            return 'node-forbidden-property'
        if 'must have property' in m:
            return 'node-required-property'
    return 'unclassified-reason'


def clause_base(c):
    head = c.split(':')[0]
    return {'required': 'required-property', 'forbidden': 'forbidden-property', 'node-required': 'node-required-property',
            'node-forbidden': 'node-forbidden-property'}.get(head, head)


def accepted_key(f, desc, handles, variant):
    """Mechanism key of 'validate() accepted although clause f fails' (+ whether the key names a specific mechanism)."""
    from fim.user.model_element import TopologyException
    c = f['clause']
    suffix = ':variant-table' if variant else ''
    if c.startswith('node-') and f['stype'] == 'Facility':
        # does the documented per-node check itself see the problem?  then validate() never asked it
        h = handles['nodes'].get(f['subject'])
        try:
            if h is not None:
                h.validate_constraints()
        except TopologyException:
            return 'C10/facility-nodes-skipped-by-validate' + suffix, True
        except Exception:
            pass
    if c == 'node-forbidden:attached_components_info':
        return 'C10/forbidden-attached-components-not-enforced' + suffix, True
    if c in ('declared-site-mismatch', 'declared-site-on-multisite'):
        stab, _ = R.tables(desc.get('table'))
        if stab[f['stype']]['num_sites'] == R.NO_LIMIT:
            return 'C10/declared-site-not-checked-for-unlimited-site-types' + suffix, True
    return f'C10/{clause_base(c)}-accepted-but-table-forbids' + suffix, False


def short(desc):
    """The description without bulky repetition, for witnesses."""
    return desc


def judge(ctx, desc, topo, handles):
    from fim.user.model_element import TopologyException
    res = R.evaluate(desc)
    if res['undetermined']:
        ctx.count('oracle-undetermined')
        return None
    variant = bool(desc.get('table'))
    ctx.count('validate-calls')
    try:
        topo.validate()
        obs, msg, et = 'accept', None, None
    except TopologyException as e:
        obs, msg, et = 'reject', str(e), 'TopologyException'
    except Exception as e:
        obs, msg, et = 'crash', f'{type(e).__name__}: {e}', type(e).__name__
    fails = res['failures']
    exp = 'reject' if fails else 'accept'
    wit = {'description': short(desc), 'expected': exp, 'observed': obs, 'message': (msg or '')[:300],
           'failing-clauses': [{k: f[k] for k in ('clause', 'subject', 'stype', 'detail')} for f in fails]}
    suffix = ':variant-table' if variant else ''
    # ---- coverage counters
    if exp == 'accept':
        for t, c in res['active']:
            ctx.count(f'clause:{t}:{c}:accept')
        _, ntab = R.tables(desc.get('table'))
        for nd in desc.get('nodes') or []:
            for rp in ntab[nd['ntype']]['required_properties']:
                ctx.count(f"nodeclause:{nd['ntype']}:node-required:{rp}:accept")
            for fp in ntab[nd['ntype']]['forbidden_properties']:
                ctx.count(f"nodeclause:{nd['ntype']}:node-forbidden:{fp}:accept")
    else:
        sole = len(fails) == 1
        for f in fails:
            if f['clause'].startswith('node-'):
                ctx.count(f"nodeclause:{f['stype']}:{f['clause']}:reject")
            elif not f.get('implicit'):
                ctx.count(f"clause:{f['stype']}:{f['clause']}:{'reject' if sole else 'reject-mixed'}")
            else:
                ctx.count(f"implicit-clause:{f['stype']}:{f['clause']}:reject")
        if variant and any(f['clause'] == 'num-instances' for f in fails):
            ctx.count('variant:num-instances:reject')
    if exp == 'accept' and variant and any(c == 'num-instances' for _, c in res['active']):
        ctx.count('variant:num-instances:accept')
    if obs == 'reject':
        ctx.count('reject-reason:' + msg_clause(msg))
    # ---- verdict
    if obs == 'crash':
        if exp == 'accept':
            unsited = [nd['name'] for nd in desc.get('nodes') or [] if R.node_site(nd) is None and R.implicit_services(nd)]
            if unsited and 'Unable to unset property' in (msg or ''):
                key = 'C10/validate-crashes-recording-site-of-node-without-site'
            else:
                key = f'C10/validate-raises-{et}-on-valid-slice'
            ctx.violation(key + suffix, 'validate() succeeds on a slice that meets every constraint', dict(wit, nodes_without_site=unsited))
        else:
            ctx.count('invalid-slice-rejected-by-' + et)       # not a TopologyException, but a rejection: not judged
        return obs
    if exp == obs:
        ctx.count('agree:' + obs)
    elif exp == 'accept':
        ctx.violation(f'C10/{msg_clause(msg)}-rejected-but-table-allows' + suffix,
                      'validate() rejected a slice in which no clause of the pinned tables fails', wit)
    else:
        keyed = [accepted_key(f, desc, handles, variant) for f in fails]
        generic = [k for k, specific in keyed if not specific]
        key = generic[0] if generic else keyed[0][0]
        ctx.violation(key, 'validate() accepted a slice in which a clause of the pinned tables fails', wit)
    # ---- a successful validation records the inferred site on single-site services
    if obs == 'accept' and exp == 'accept':
        for name, site in sorted(res['record_site'].items()):
            ctx.count('site-recorded-checked')
            try:
                got = topo.network_services[name].site
            except KeyError:
                ctx.count('site-check-skipped:service-not-listed')
                continue
            if got != site:
                key = 'C10/site-not-recorded-after-validation' if not got else 'C10/site-recorded-differs-from-connected-nodes'
                ctx.violation(key + suffix, 'after a successful validation a single-site service carries the site of its connected nodes',
                              dict(wit, service=name, expected_site=site, observed_site=got))
    # ---- the same slice after serialize + load (what an orchestrator validates) gets the same verdict
    if exp == obs and obs in ('accept', 'reject') and (RELOAD_ALWAYS[0] or ctx.rng.random() < 0.34):
        reload_and_validate(ctx, desc, topo, exp, wit, suffix)
    # ---- the slice is edited after it was validated (a node moves to another site) and validated again
    if exp == obs and obs in ('accept', 'reject') and (RELOAD_ALWAYS[0] or ctx.rng.random() < 0.25):
        move_and_revalidate(ctx, desc, topo, suffix)
    return obs


def move_and_revalidate(ctx, desc, topo, suffix):
    """validate() looks at the slice as it is NOW: after a first validation one VM is moved to another site (sites that the
    first validation recorded on services are cleared, so that only the constraint tables decide) and the verdict must be
    the oracle's verdict for the moved slice."""
    from fim.user.model_element import TopologyException
    vms = [nd for nd in desc.get('nodes') or [] if nd.get('via') == 'add_node' and nd.get('ntype') == 'VM' and
           nd.get('site_state', 'set') == 'set' and nd.get('components')]
    if not vms:
        return
    nd = vms[ctx.rng.randrange(len(vms))]
    new_site = [x for x in SITES if x != nd['site']][ctx.rng.randrange(len(SITES) - 1)]
    d2 = copy.deepcopy(desc)
    for x in d2['nodes']:
        if x['name'] == nd['name']:
            x['site'] = new_site
    res2 = R.evaluate(d2)
    if res2['undetermined']:
        return
    declared = {sv['name'] for sv in desc.get('services') or [] if sv.get('declared') is not None}
    try:
        topo.nodes[nd['name']].set_property('site', new_site)
        for name, svc in topo.network_services.items():
            if name not in declared and svc.site is not None:
                svc.set_property('site', None)
    except Exception as e:
        ctx.count('revalidate:edit-refused')
        return
    ctx.count('validate-calls:after-moving-a-node')
    try:
        topo.validate()
        obs2, msg2 = 'accept', None
    except TopologyException as e:
        obs2, msg2 = 'reject', str(e)
    except Exception as e:
        obs2, msg2 = 'crash', f'{type(e).__name__}: {e}'
    exp2 = 'reject' if res2['failures'] else 'accept'
    if obs2 == exp2:
        ctx.count('agree-after-move:' + exp2)
    elif obs2 == 'crash' and exp2 == 'reject':
        ctx.count('revalidate:invalid-slice-rejected-by-other-exception')
    else:
        key = f'C10/verdict-after-moving-a-node-differs:{exp2}->{obs2}' + suffix
        if exp2 == 'reject' and obs2 == 'accept':
            # the same mechanism keys as for a first validation (a known finding stays the known finding)
            keyed = [accepted_key(f, d2, {'nodes': {}}, bool(suffix)) for f in res2['failures']]
            if keyed and all(specific for _, specific in keyed):
                key = keyed[0][0]
        ctx.violation(key,
                      'validate() succeeds iff every constraint is met by the slice as it is now (a node was moved to another site '
                      'after an earlier validation)',
                      {'description': short(d2), 'moved': nd['name'], 'to': new_site, 'expected': exp2, 'observed': obs2,
                       'message': (msg2 or '')[:300], 'failing-clauses': [{k: f[k] for k in ('clause', 'subject', 'stype', 'detail')} for f in res2['failures']]})


RELOAD_ALWAYS = [False]


def reload_and_validate(ctx, desc, topo, exp, wit, suffix):
    from fim.user.model_element import TopologyException
    try:
        text = topo.serialize()
        t2 = type(topo)(importer=topo.graph_model.importer)
        t2.load(graph_string=text, new_graph_id=f'C10-reload-{os.getpid()}')
    except Exception as e:
        ctx.count('reload:not-loadable')
        return
    ctx.count('validate-calls:after-serialize-and-load')
    try:
        t2.validate()
        obs2, msg2 = 'accept', None
    except TopologyException as e:
        obs2, msg2 = 'reject', str(e)
    except Exception as e:
        obs2, msg2 = 'crash', f'{type(e).__name__}: {e}'
    finally:
        try:
            t2.graph_model.delete_graph()
        except Exception:
            pass
    if obs2 == exp:
        ctx.count('agree-after-reload:' + exp)
    elif obs2 == 'crash' and exp == 'reject':
        ctx.count('reload:invalid-slice-rejected-by-other-exception')
    else:
        ctx.violation(f'C10/verdict-after-serialize-and-load-differs:{exp}->{obs2}' + suffix,
                      'validate() succeeds iff every constraint is met - also for the same slice read back from its serialized form',
                      dict(wit, verdict_after_reload=obs2, message_after_reload=(msg2 or '')[:300]))


def new_case(imp, desc, tag):
    imp.delete_all_graphs()
    topogen.seed_uuid(f'C10/{tag}')
    return topogen.new_topology(imp, desc.get('flavour', 'experiment'))


def run_case(ctx, imp, desc, tag=''):
    """Build the described slice, judge validate().  Guard-railed combinations inside a description are judged at the
    connect step as well."""
    space = desc.get('space', '?')
    topo = new_case(imp, desc, tag)
    with live_override(desc.get('table')):
        try:
            railed = [(sv, it) for sv in desc.get('services') or [] for it in sv.get('ifaces') or []
                      if R.guardrailed(sv['nstype'], it['itype'])]
            handles = build(topo, desc)
        except Refusal as r:
            wit = {'description': short(desc), 'stage': r.stage, 'exception': str(r.exc)[:300]}
            if railed:
                ctx.count(f'guardrail:{r.stage}:refused-as-pinned')
                ctx.count('cases-ended-by-pinned-refusal')
            else:
                ctx.violation(f'C10/guardrail-refused-but-table-allows:{r.stage}',
                              'only the pinned combinations are refused when an interface is connected', wit)
            return 'refused'
        except HarnessProblem as e:
            ctx.count('harness-problem')
            ctx.mark_inconclusive(f'harness problem while building a described slice: {e}')
            return 'harness'
        except Exception as e:
            ctx.count('harness-problem')
            ctx.mark_inconclusive(f'building a described slice raised {type(e).__name__}: {str(e)[:200]} ({space})')
            return 'harness'
        if railed:
            sv, it = railed[0]
            stage = 'connect' if sv.get('via') != 'ctor' else 'ctor'
            ctx.count(f'guardrail:{stage}:pinned-refusal-attempted')
            key = 'C10/guardrail-not-applied-by-connect_interface' if stage == 'connect' else 'C10/guardrail-not-applied-by-constructor'
            ctx.violation(key, 'connecting an interface refuses, at once, combinations the service type cannot support',
                          {'description': short(desc), 'service type': sv['nstype'], 'interface type': it['itype'], 'stage': stage,
                           'observed': 'no exception'})
        ctx.count('cases:' + space)
        ctx.seen(desc, bool(desc.get('services')) or any(nd.get('image') or nd.get('management_ip') or nd.get('components') or
                                                          nd.get('site_state', 'set') != 'set' for nd in desc.get('nodes') or []))
        return judge(ctx, desc, topo, handles)


def run_guardrail(ctx, imp, g):
    """One guard-rail attempt: the tested interface first / second, through the constructor / connect_interface."""
    from fim.user import ServiceType
    from fim.user.model_element import TopologyException
    T, kind, mode = g['nstype'], g['kind'], g['mode']
    itype = KIND_ITYPE[kind]
    nd, it = iface_block('g0', SITES[0], kind)
    nodes, ifs = [nd], [it]
    lookup = mode.endswith('-lookup')       # the connect goes through a handle looked up later, not the one add_network_service returned
    if lookup:
        mode = mode[:-len('-lookup')]
    if mode.endswith('second'):
        nd2, it2 = iface_block('g1', SITES[0], 'DedicatedPort')
        nodes, ifs = [nd2, nd], [it2, it]
    desc = {'flavour': 'experiment'}
    topo = new_case(imp, desc, f'G/{T}/{kind}/{mode}')
    try:
        for x in nodes:
            build_node(topo, x)
        hs = [resolve(topo, x) for x in ifs]
    except Exception as e:
        ctx.count('harness-problem')
        ctx.mark_inconclusive(f'guard-rail setup raised {type(e).__name__}: {str(e)[:200]}')
        return
    stage = 'ctor' if mode.startswith('ctor') else 'connect'
    if mode.endswith('busy'):
        return run_busy(ctx, topo, hs[-1], T, itype, stage, g)
    expect_refusal = R.guardrailed(T, itype)
    ctx.count('cases:G')
    ctx.seen(g, True)
    refused, exc = False, None
    try:
        if stage == 'ctor':
            topo.add_network_service(name='gsvc', nstype=ServiceType[T], interfaces=hs)
        else:
            s = topo.add_network_service(name='gsvc', nstype=ServiceType[T], interfaces=hs[:-1] if len(hs) > 1 else None)
            if lookup:
                s = topo.network_services['gsvc']
            s.connect_interface(hs[-1])
    except TopologyException as e:
        refused, exc = True, e
    except Exception as e:
        ctx.count('harness-problem')
        ctx.mark_inconclusive(f'guard-rail attempt raised {type(e).__name__}: {str(e)[:200]}')
        return
    wit = {'guardrail-case': g, 'service type': T, 'interface type': itype, 'stage': stage, 'pinned-refusal': expect_refusal,
           'observed': f'refused: {str(exc)[:200]}' if refused else 'no exception'}
    if expect_refusal:
        ctx.count(f'guardrail:{stage}:pinned-refusal-attempted')
        if refused:
            ctx.count(f'guardrail:{stage}:refused-as-pinned')
        else:
            key = 'C10/guardrail-not-applied-by-connect_interface' if stage == 'connect' else 'C10/guardrail-not-applied-by-constructor'
            ctx.violation(key, 'connecting an interface refuses, at once, combinations the service type cannot support', wit)
    else:
        if refused:
            ctx.violation(f'C10/guardrail-refused-but-table-allows:{stage}',
                          'only the pinned combinations are refused when an interface is connected', wit)
        else:
            ctx.count(f'guardrail:{stage}:allowed-as-pinned')


def run_busy(ctx, topo, h, T, itype, stage, g):
    """The interface already belongs to a legal service ('home'); connecting it to a second one is refused at once - and
    a refusal does nothing else: 'home' keeps the interface and the slice keeps its verdict."""
    from fim.user import ServiceType
    try:
        home = topo.add_network_service(name='home', nstype=ServiceType.L2Bridge, interfaces=[h])
    except Exception:
        ctx.count('guardrail:busy:setup-refused')
        return

    def state():
        try:
            topo.validate()
            v = 'accept'
        except Exception as e:
            v = 'reject'
        sv = topo.network_services['home']
        return (v, sorted(i.name for i in sv.interface_list), sorted(p.name for p in (h.get_peers() or [])))
    second = None
    if stage == 'connect':
        try:
            second = topo.add_network_service(name='gsvc', nstype=ServiceType[T])      # the (still empty) second service is part of 'before'
        except Exception:
            ctx.count('guardrail:busy:setup-refused')
            return
    before = state()
    refused = False
    try:
        if stage == 'ctor':
            topo.add_network_service(name='gsvc', nstype=ServiceType[T], interfaces=[h])
        else:
            second.connect_interface(h)
    except Exception as e:
        refused = True
    ctx.count('cases:G')
    ctx.count(f'guardrail:{stage}:busy-interface-attempted')
    ctx.seen(g, True)
    wit = {'guardrail-case': g, 'service type': T, 'interface type': itype, 'stage': stage}
    if not refused:
        ctx.violation('C10/connected-interface-accepted-by-second-service', 'an interface that already belongs to a service is refused '
                      'at once by a second one', wit)
        return
    after = state()
    if after != before:
        ctx.violation('C10/refused-connect-changes-the-slice', 'a refused connection is only refused: the service the interface belongs to '
                      'keeps it and validation gives the same verdict', dict(wit, before=list(before), after=list(after)))


def check_pin(ctx):
    live = R.live_tables()
    ctx.count('pin-diff-evaluated')
    ctx.count('pin-cells-compared', sum(len(v) for v in live['service'].values()) + sum(len(v) for v in live['node'].values()))
    ctx.info['live_service_types'] = sorted(live['service'])
    ctx.info['live_node_types'] = sorted(live['node'])
    for tab, t, f, pinned, now in R.diff_tables(live):
        ctx.violation(f'C10/constraint-table-differs-from-pin:{t}:{f}',
                      'the live constraint table equals the pinned copy (silent edits are visible)',
                      {'pin-check': True, 'table': tab, 'type': t, 'field': f, 'pinned': pinned, 'live': now})
    # the vocabulary of the generator must cover the live enumerations, otherwise the claim silently shrinks
    from fim.user import ServiceType, NodeType
    if sorted(x.name for x in ServiceType) != sorted(TYPES):
        ctx.mark_inconclusive(f'service types changed: live {sorted(x.name for x in ServiceType)}')
    if sorted(x.name for x in NodeType) != sorted(NODE_TYPES):
        ctx.mark_inconclusive(f'node types changed: live {sorted(x.name for x in NodeType)}')


# ======================================================================================= quick plan
def buckets_of(desc):
    """Oracle-derived strata of a point of the service product."""
    res = R.evaluate(desc)
    sv = desc['services'][0]
    T = sv['nstype']
    p = desc['params']
    if any(R.guardrailed(T, it['itype']) for it in sv['ifaces']):
        # may end at the connect step: a stratum of its own, never the witness of a validation clause
        return [f'{T}:guardrailed:{p[1]}:{p[6]}']
    out = []
    user = [f for f in res['failures'] if not f.get('implicit') and not f['clause'].startswith('node-')]
    if not res['failures']:
        out += [f'{T}:{c}:accept' for t, c in res['active']]
        verdict = 'acc'
    else:
        verdict = 'rej'
        if len(res['failures']) == 1 and user:
            out.append(f"{T}:{user[0]['clause']}:reject")
        else:
            out += [f"{T}:{f['clause']}:reject-mixed" for f in user]
    out.append(f'{T}:shape:{p[1]}:{p[2]}:{p[3]}:{verdict}')
    out.append(f'{T}:kind:{p[4]}:{verdict}')
    out.append(f'{T}:prop:{p[5]}:{p[6]}:{verdict}')
    return out


def quick_plan(seed, per_bucket=2, fill=300):
    order = list(range(S_TOTAL))
    random.Random(f'C10/plan/{seed}').shuffle(order)
    have, plan, rest = {}, [], []
    for idx in order:
        d = s_desc(s_decode(idx))
        if d is None:
            continue
        bs = buckets_of(d)
        # clause strata are filled per_bucket times, the shape / kind / property strata once
        if any(have.get(b, 0) < (1 if b.split(':')[1] in ('shape', 'kind', 'prop', 'guardrailed') else per_bucket) for b in bs):
            for b in bs:
                have[b] = have.get(b, 0) + 1
            plan.append(idx)
        elif len(rest) < fill:
            rest.append(idx)
    return plan + rest, len(have)


# ======================================================================================= run / replay
def run(ctx):
    imp = rawgraph.importers()['shared'][0]
    check_pin(ctx)
    sh, nsh = ctx.shard, ctx.nshards
    ctx.info['service_product_size'] = 0
    # ---- small spaces: always complete
    for i, d in enumerate(N_SPACE):
        if i % nsh == sh:
            run_case(ctx, imp, d, f'N/{i}')
    for i, g in enumerate(g_space()):
        if i % nsh == sh:
            run_guardrail(ctx, imp, g)
    for i, d in enumerate(p_space()):
        if i % nsh == sh:
            run_case(ctx, imp, d, f'P/{i}')
    for i, d in enumerate(u_space()):
        if i % nsh == sh:
            run_case(ctx, imp, d, f'U/{i}')
    for i, d in enumerate(d_space()):
        if i % nsh == sh:
            run_case(ctx, imp, d, f'D/{i}')
    for i, d in enumerate(v_space()):
        if i % nsh == sh:
            run_case(ctx, imp, d, f'V/{i}')
    for i, d in enumerate(x_space()):
        if i % nsh == sh:
            run_case(ctx, imp, d, f'X/{i}')
    # ---- the service product
    if ctx.quick:
        plan, nb = quick_plan(ctx.seed)
        if sh == 0:
            ctx.info['quick_plan_cases'] = len(plan)
            ctx.info['quick_plan_strata'] = nb
    else:
        plan = list(range(S_TOTAL))
        random.Random('C10/thorough-order').shuffle(plan)
    mine = plan[sh::nsh]
    done = 0
    samples = 0
    for idx in mine:
        d = s_desc(s_decode(idx))
        done += 1
        if d is None:
            continue
        ctx.info['service_product_size'] += 1
        r = run_case(ctx, imp, d, f'S/{idx}')
        if samples < 2 and r in ('accept', 'reject') and d['services'][0]['ifaces']:
            ctx.sample({'description': d, 'validate': r})
            samples += 1
        if ctx.out_of_time():
            break
    if done < len(mine):
        ctx.mark_inconclusive(f'shard {sh}: time budget reached after {done} of {len(mine)} points of the service product')
    # ---- random multi-service mixes
    rng = ctx.subrng('mix')
    for i in range(ctx.pick(10, 200)):
        if ctx.out_of_time():
            break
        run_case(ctx, imp, r_desc(rng), f'R/{ctx.seed}/{sh}/{i}')
    imp.delete_all_graphs()
    import time
    ctx.info['cpu_seconds_all_shards'] = round(time.process_time(), 1)


def replay(ctx, case):
    imp = rawgraph.importers()['shared'][0]
    w = case['witness']
    if w.get('pin-check'):
        check_pin(ctx)
    elif 'guardrail-case' in w:
        run_guardrail(ctx, imp, w['guardrail-case'])
    else:
        RELOAD_ALWAYS[0] = True
        run_case(ctx, imp, w['description'], 'replay')
    imp.delete_all_graphs()


LEVEL_TEXT = ('Runtime monitoring against a reference model: a pinned, hand-transcribed copy of the two constraint tables is diffed '
              'against the live tables, and an oracle over the generator\'s own description of each slice (never the graph) predicts '
              'accept/reject of Topology.validate() clause by clause (interface counts, sites spanned, declared vs inferred site, '
              'required/forbidden properties by truthiness, permitted interface types, one peer per service port, node properties, '
              'instances per site) and the site that a successful validation records. Quick: oracle-stratified sample of the service '
              'product (every (type, clause) pair accepted and as the only failing clause) plus the complete node, guard-rail, '
              'service-port, substrate and variant-table spaces; thorough: the whole product. Held on the executions observed.')
LEVEL_NOTE = ('Trusted: the hand-transcribed pin, the description-to-API builder (it cross-checks interface and node types of the handles '
              'it gets back). Not covered: peered services (validate() is documented for ASMs there), topologies loaded from files, '
              'Neo4j-backed models, nodes without a site under user services, services whose names collide, the `desc` text.')
TECHNIQUE = 'reference-model oracle over described inputs + pinned-table diff + exhaustive/stratified product enumeration'
